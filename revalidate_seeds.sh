#!/bin/bash
# usage: revalidate_seeds.sh [ids...]: re-validates every /verif/seeded/<id> against /repo HEAD in a scratch
# worktree: demo passes on the clean tree, patch applies, build + existing suite pass with the patch,
# demo fails with the patch. Prints one RESULT line per seed.
export GOFLAGS=-mod=mod GOPROXY=off GOSUMDB=off GOTOOLCHAIN=local
wt=/tmp/wt-reval
git -C /repo worktree remove --force $wt 2>/dev/null; rm -rf $wt
git -C /repo worktree add -q --detach $wt HEAD || exit 9
ids="$@"; [ -z "$ids" ] && ids=$(ls /verif/seeded)
for id in $ids; do
  sd=/verif/seeded/$id
  demo=$sd/demo_test.go
  dir=$(head -1 $demo | sed 's|.*package-dir:[ ]*||; s|[ ]*$||')
  cmd=$(sed -n 2p $demo | sed 's|^//[ ]*||')
  tname=$(echo "$cmd" | grep -o 'zz_seed_demo[0-9]*_test.go' | head -1); [ -z "$tname" ] && tname=zz_seed_demo_test.go
  n=$(echo $id | sed 's/.*-//'); tname=zz_seed_demo${n}_test.go
  cd $wt; git checkout -q -- . ; git clean -fdq
  cp $demo $wt/$dir/$tname
  ( timeout 300 bash -c "$cmd" ) > /tmp/reval-$id-clean.txt 2>&1; rc_clean=$?
  rm -f $wt/$dir/$tname
  if ! git apply $sd/patch.diff 2>/tmp/reval-$id-apply.txt; then echo "RESULT $id: patch does not apply"; continue; fi
  ( go build ./... && go test -vet=off -count=1 ./... ) > /tmp/reval-$id-suite.txt 2>&1; rc_suite=$?
  cp $demo $wt/$dir/$tname
  ( timeout 300 bash -c "$cmd" ) > /tmp/reval-$id-patched.txt 2>&1; rc_patched=$?
  v=INVALID; [ $rc_clean -eq 0 ] && [ $rc_suite -eq 0 ] && [ $rc_patched -ne 0 ] && v=VALID
  echo "RESULT $id: demo_clean_rc=$rc_clean suite_with_patch_rc=$rc_suite demo_patched_rc=$rc_patched $v"
done
cd /; git -C /repo worktree remove --force $wt; rm -rf $wt
