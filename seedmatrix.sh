#!/bin/bash
# runs every seeded mutation against the quick check of its property (or the tier given as $1); prints a table
tier=${1:-quick}
only=$2
for d in /verif/seeded/*/; do
  id=$(basename $d); prop=${id%-*}
  [ -n "$only" ] && [[ "$id" != $only* ]] && continue
  [ -n "$ONLY_RE" ] && ! [[ "$id" =~ $ONLY_RE ]] && continue
  if ! grep -q "\"$prop\"" /verif/MANIFEST.json || ! python3 -c "
import json,sys
m=json.load(open('/verif/MANIFEST.json'))
sys.exit(0 if any(c['property_id']=='$prop' for c in m['checks']) else 1)"; then echo "$id: property not claimed"; continue; fi
  cd /repo
  if ! git apply --check $d/patch.diff 2>/dev/null; then echo "$id: PATCH DOES NOT APPLY"; continue; fi
  git apply $d/patch.diff
  t0=$(date +%s)
  out=$(cd /verif && timeout 1800 ./bin/gosmt check $prop $tier 2>&1); rc=$?
  t1=$(date +%s)
  git checkout -- .
  v=$(echo "$out" | grep -c "^VIOLATION")
  first=$(echo "$out" | grep "counterexample" | head -1 | sed 's/.*cex-[0-9]*.json: //' | cut -c1-110)
  echo "$id: rc=$rc violations=$v time=$((t1-t0))s $first"
done
