//go:build verif

package model

import "strings"

// C20.2: an X-Ray error cause is passed on only as valid JSON of at most 64 KiB whose fields
// are the original ones, possibly shortened; causes without any recognised field or with
// invalid JSON are dropped. The cause document is an arbitrary (symbolic) byte sequence;
// encoding/json's decoding yields either an error or arbitrary field values (<= 2 exceptions,
// <= 2 paths); its string escaping is the uninterpreted function json_esc with the length
// contract len(s) <= len(json_esc(s)) <= 6*len(s).
func VerifC20ErrorCause() {
	doc := verifNondetBytes("error cause document")
	out, err := ValidatedErrorCauseJSON(doc)
	if err != nil {
		verifReach("dropped")
		verifAssert(out == nil, "a dropped cause yields no document")
		return
	}
	verifReach("accepted")
	verifAssert(len(out) <= MaxErrorCauseSizeBytes, "an accepted error cause is at most 64 KiB")
}

// the validity rule alone: all-empty causes are dropped
func VerifC20ErrorCauseEmpty() {
	out, err := ValidatedErrorCauseJSON([]byte(`{"foo":"bar"}`))
	verifAssert(err != nil && out == nil, "a cause without any recognised field is dropped")
	out2, err2 := ValidatedErrorCauseJSON([]byte(`not json`))
	verifAssert(err2 != nil && out2 == nil, "invalid JSON is dropped")
	out3, err3 := ValidatedErrorCauseJSON([]byte(`{"message":"boom","paths":["a","b"]}`))
	verifAssert(err3 == nil && strings.Contains(string(out3), `"message":"boom"`) && strings.Contains(string(out3), `"paths":["a","b"]`), "recognised fields are passed on")
	verifReach("done")
}

// cropString keeps a prefix and marks the cut
func VerifC20Crop() {
	s := verifNondetOpaque("field")
	n := verifNondetInt("length")
	verifAssume(n >= 3 && n <= 1<<20)
	r := cropString(s, n)
	verifAssert(len(r) <= n || len(r) == len(s), "a cropped field is at most the requested length")
	if len(s) <= n {
		verifAssert(r == s, "a short field is unchanged")
	} else {
		verifReach("cropped")
		verifAssert(strings.HasSuffix(r, "...") && strings.HasPrefix(s, r[:len(r)-3]), "a cropped field is a prefix of the original plus the truncation mark")
	}
}

// Escape-heavy error causes: the message is k plain letters followed by n characters that
// encoding/json escapes with six bytes each ('<'), k and n symbolic; the document the runtime
// sends contains them raw (one byte each). The accepted cause must be at most 64 KiB.
func VerifC20ErrorCauseEscape() {
	k := verifNondetInt("plain letters in the message")
	n := verifNondetInt("html-escaped characters in the message")
	verifAssume(k >= 0 && k <= 400000 && n >= 0 && n <= 400000)
	msg := strings.Repeat("a", k) + strings.Repeat("<", n)
	doc := []byte(`{"message":"` + msg + `","working_directory":"/var/task"}`)
	out, err := ValidatedErrorCauseJSON(doc)
	if err != nil {
		verifReach("dropped")
		return
	}
	verifReach("accepted")
	if len(doc) <= MaxErrorCauseSizeBytes {
		verifReach("small-input")
	}
	verifAssert(len(out) <= MaxErrorCauseSizeBytes, "an accepted error cause is at most 64 KiB")
}
