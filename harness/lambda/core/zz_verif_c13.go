//go:build verif

package core

import "fmt"

// C13 (registration service level): at most ten extensions exist and names are unique across
// kinds. k external extensions are created first (as the launch loop does), then twelve
// registrations follow, each a symbolic choice between an internal extension under a fresh
// name, an internal one under the name of an external, and a repeated internal name.
func VerifC13Limit() {
	rs := NewRegistrationService(NewInitFlowSynchronization(), NewInvokeFlowSynchronization())
	k := verifChoice(MaxAgentsAllowed+1, "number of external extensions")
	for i := 0; i < k; i++ {
		_, err := rs.CreateExternalAgent(fmt.Sprintf("ext%d", i))
		verifAssert(err == nil, "an external extension under a fresh name is created")
	}
	total := k
	internals := 0
	lastInternal := ""
	for j := 0; j < 4; j++ {
		// fill up quickly, then probe the boundary with symbolic choices
		for total < MaxAgentsAllowed-2 {
			lastInternal = fmt.Sprintf("fill%d", total)
			_, err := rs.CreateInternalAgent(lastInternal)
			verifAssert(err == nil, "below the limit an internal extension under a fresh name is accepted")
			total++
			internals++
		}
		switch verifChoice(3, "registration") {
		case 0:
			_, err := rs.CreateInternalAgent(fmt.Sprintf("int%d", j))
			if total < MaxAgentsAllowed {
				verifAssert(err == nil, "below the limit an internal extension under a fresh name is accepted")
				total++
				internals++
				lastInternal = fmt.Sprintf("int%d", j)
			} else {
				verifReach("limit")
				verifAssert(err == ErrTooManyExtensions, "the eleventh extension is refused with ErrTooManyExtensions")
			}
		case 1:
			if k > 0 {
				_, err := rs.CreateInternalAgent("ext0")
				verifAssert(err != nil, "an internal extension cannot take the name of an external one")
				if total < MaxAgentsAllowed {
					verifReach("collision")
					verifAssert(err == ErrAgentNameCollision, "a name collision across kinds is ErrAgentNameCollision")
				}
			}
		case 2:
			if internals > 0 && total < MaxAgentsAllowed {
				_, err := rs.CreateInternalAgent(lastInternal)
				verifReach("duplicate")
				verifAssert(err != nil, "a second internal extension under the same name is refused")
			}
		}
		verifAssert(rs.CountAgents() == total && total <= MaxAgentsAllowed, "at most ten extensions exist and refused registrations change no count")
		verifAssert(int(rs.GetRegisteredAgentsSize()) == total, "the barrier count equals the number of extensions")
	}
	verifReach("done")
}
