//go:build verif

package bandwidthlimiter

import "time"

// C17.3b: one step of the token bucket from an arbitrary valid state keeps
// sent + tokens <= burst + sum of refills (linear ghost `allowance`), 0 <= tokens <= capacity.
func VerifC17BucketStep() {
	capacity := verifNondetInt64("capacity")
	tok := verifNondetInt64("tokenCount")
	refill := verifNondetInt64("refillNumber")
	sent := verifNondetInt64("ghost sent")
	allowance := verifNondetInt64("ghost allowance")
	verifAssume(capacity > 0 && capacity <= 1<<40 && refill > 0 && refill <= 1<<40)
	verifAssume(0 <= tok && tok <= capacity)
	verifAssume(0 <= sent && sent <= 1<<60 && allowance <= 1<<61 && sent+tok <= allowance)
	b := &Bucket{capacity: capacity, tokenCount: tok, refillNumber: refill, refillInterval: 125 * time.Millisecond}
	switch verifChoice(2, "bucket op") {
	case 0:
		b.produceTokens()
		allowance += refill
		verifReach("produce")
	case 1:
		n := verifNondetInt64("n")
		verifAssume(n >= 0)
		if b.consumeTokens(n) {
			sent += n
			verifReach("consume-ok")
		} else {
			verifAssert(n > tok, "consume refused only when tokens are insufficient")
			verifAssert(b.tokenCount == tok, "refused consume leaves the bucket unchanged")
			verifReach("consume-refused")
		}
	}
	verifAssert(0 <= b.tokenCount && b.tokenCount <= b.capacity, "0 <= tokens <= capacity")
	verifAssert(sent+b.tokenCount <= allowance, "sent + tokens <= burst + refills")
}

// C17.3c: chunks partition the buffer in order, each at most the chunk size.
func VerifC17Chunks() {
	buf := verifNondetBytes("buf")
	size := verifNondetInt("chunk size")
	verifAssume(size > 0 && size <= 1<<30 && len(buf) <= 3*size)
	it := NewChunkIterator(buf, size)
	var got []byte
	n := 0
	for {
		c := it.Next()
		if c == nil {
			break
		}
		verifAssert(len(c) <= size && len(c) > 0, "each chunk is non-empty and at most the chunk size")
		got = append(got, c...)
		n++
		verifAssert(n <= 3, "number of chunks bounded")
	}
	verifAssert(string(got) == string(buf), "chunks concatenate to the buffer")
	if n == 3 {
		verifReach("three-chunks")
	}
}

type verifSink struct {
	body   []byte
	writes int
	maxLen int
}

func (s *verifSink) Write(p []byte) (int, error) {
	s.body = append(s.body, p...)
	s.writes++
	if len(p) > s.maxLen {
		s.maxLen = len(p)
	}
	return len(p), nil
}

// C17.3d: the full writer with its ticker goroutine (real Throttler.start goroutine,
// real select on ticker/done): every byte is forwarded in order, each write <= capacity,
// the copy terminates (no deadlock at quiescence), and at the end
// sent + tokens <= burst + refill * ticks. Sizes are small and concrete here (the
// arithmetic for arbitrary parameters is covered by the inductive lemma above);
// contents, refill and length are symbolic / case-split.
func VerifC17Writer() {
	capacity := int64(3)
	refill := int64(1 + verifChoice(2, "refill-1"))
	b, err := NewBucket(capacity, capacity, refill, 125*time.Millisecond)
	verifAssert(err == nil, "valid parameters")
	sink := &verifSink{}
	w, _ := NewBandwidthLimitingWriter(sink, b)
	n := verifChoice(7, "len(p)")
	p := make([]byte, n)
	for i := range p {
		p[i] = verifNondetByte("p[i]")
	}
	wn, werr := w.Write(p)
	w.Close()
	verifAssert(werr == nil && wn == len(p), "write forwards everything")
	verifAssert(string(sink.body) == string(p), "bytes forwarded in order and unaltered")
	verifAssert(int64(sink.maxLen) <= capacity, "each chunk at most the burst")
	ticks := int64(verifTicks())
	verifAssert(int64(len(sink.body))+b.tokenCount <= capacity+refill*ticks, "volume <= burst + refill * ticks")
	if sink.writes >= 2 {
		verifReach("two-chunks")
	}
	if ticks > 0 && n > 3 {
		verifReach("waited-for-refill")
	}
}

// VerifBucketParams exposes the token bucket a writer was built with (capacity = burst, tokens per
// refill, refill interval) so that the direct-invoke harness can tie them to the configured
// rate and burst.
func VerifBucketParams(w *BandwidthLimitingWriter) (capacity, tokens, refill int64, interval time.Duration) {
	b := w.th.b
	return b.capacity, b.tokenCount, b.refillNumber, b.refillInterval
}
