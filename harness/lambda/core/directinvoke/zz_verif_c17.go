//go:build verif

package directinvoke

import (
	"bytes"
	"context"
	"go.amzn.com/lambda/core/bandwidthlimiter"
	"io"
	"math"
	"net"
	"net/http"
	"time"

	"github.com/go-chi/chi"
	"go.amzn.com/lambda/interop"
)

// recording ResponseWriter + Flusher
type verifRecorder struct {
	hdr     http.Header
	status  int
	body    []byte
	writes  int
	flushes int
}

func newVerifRecorder() *verifRecorder { return &verifRecorder{hdr: http.Header{}} }

func (w *verifRecorder) Header() http.Header { return w.hdr }
func (w *verifRecorder) Write(p []byte) (int, error) {
	w.body = append(w.body, p...)
	w.writes++
	return len(p), nil
}
func (w *verifRecorder) WriteHeader(s int) {
	if w.status == 0 {
		w.status = s
	}
}
func (w *verifRecorder) Flush() { w.flushes++ }

func verifRequest(tag string, resToken string) *http.Request {
	h := http.Header{}
	h.Set(InvokeIDHeader, verifNondetOpaque(tag+" Invoke-Id"))
	h.Set(VersionIDHeader, verifNondetOpaque(tag+" Version"))
	h.Set(MaxPayloadSizeHeader, verifNondetOpaque(tag+" MaxPayloadSize"))
	h.Set(InvokeResponseModeHeader, verifNondetHeader(tag+" InvokeResponseMode"))
	h.Set(ResponseBandwidthRateHeader, verifNondetOpaque(tag+" ResponseBandwidthRate"))
	h.Set(ResponseBandwidthBurstSizeHeader, verifNondetOpaque(tag+" ResponseBandwidthBurstSize"))
	r := &http.Request{Header: h, Body: io.NopCloser(bytes.NewReader(nil))}
	rctx := chi.NewRouteContext()
	rctx.URLParams.Add("reservationtoken", resToken)
	return r.WithContext(context.WithValue(context.Background(), chi.RouteCtxKey, rctx))
}

func verifToken(tag string) (interop.Token, string) {
	rt := verifNondetOpaque(tag + " url reservation token")
	t := interop.Token{
		ReservationToken: verifNondetOpaque(tag + " token.ReservationToken"),
		InvokeID:         verifNondetOpaque(tag + " token.InvokeID"),
		VersionID:        verifNondetOpaque(tag + " token.VersionID"),
		FunctionTimeout:  time.Duration(verifNondetInt64(tag + " token.FunctionTimeout")),
		InvackDeadlineNs: verifNondetInt64(tag + " token.InvackDeadlineNs"),
	}
	verifAssume(t.FunctionTimeout >= 0 && t.FunctionTimeout <= 900*time.Second)
	return t, rt
}

func verifResetPkgVars() {
	MaxDirectResponseSize = interop.MaxPayloadSize
	ResponseBandwidthRate = interop.ResponseBandwidthRate
	ResponseBandwidthBurstSize = interop.ResponseBandwidthBurstSize
	InvokeResponseMode = interop.InvokeResponseModeBuffered
}

// C17.1: optional headers take their defaults whenever absent, independently of
// earlier requests. Relational, one inductive step: the four package variables
// hold arbitrary leftovers of ANY request history (havocked), the same request is
// also run on the state of a freshly started process, and both outcomes must agree.
func VerifC17Stateless() {
	tok, rt := verifToken("req")
	tok.InvackDeadlineNs = math.MaxInt64 // no ack deadline here (expiry is covered by VerifC17Validation)
	r := verifRequest("req", rt)

	// arbitrary history
	MaxDirectResponseSize = verifNondetInt64("leftover MaxDirectResponseSize")
	ResponseBandwidthRate = verifNondetInt64("leftover ResponseBandwidthRate")
	ResponseBandwidthBurstSize = verifNondetInt64("leftover ResponseBandwidthBurstSize")
	if verifChoice(2, "leftover InvokeResponseMode") == 1 {
		InvokeResponseMode = interop.InvokeResponseModeStreaming
	} else {
		InvokeResponseMode = interop.InvokeResponseModeBuffered
	}
	wA := newVerifRecorder()
	invA, errA := ReceiveDirectInvoke(wA, r, tok)
	maxA, rateA, burstA, modeA := MaxDirectResponseSize, ResponseBandwidthRate, ResponseBandwidthBurstSize, InvokeResponseMode

	verifResetPkgVars() // what a fresh process starts with
	wB := newVerifRecorder()
	invB, errB := ReceiveDirectInvoke(wB, r, tok)

	verifAssert(errA == errB, "same request gives the same error after any earlier requests")
	verifAssert((invA == nil) == (invB == nil), "same request is accepted/refused the same after any earlier requests")
	if invA != nil && invB != nil {
		verifReach("accepted")
		verifAssert(invA.InvokeResponseMode == invB.InvokeResponseMode, "response mode defaults to Buffered independently of earlier requests")
		verifAssert(invA.ID == invB.ID && invA.DeadlineNs == invB.DeadlineNs && invA.VersionID == invB.VersionID, "parsed invoke independent of earlier requests")
	} else {
		verifReach("refused")
	}
	verifAssert(wA.status == wB.status, "same status after any earlier requests")
	if errA == nil {
		verifAssert(maxA == MaxDirectResponseSize, "payload limit re-derived per request")
		verifAssert(modeA == InvokeResponseMode, "response mode re-derived per request")
		if modeA == interop.InvokeResponseModeStreaming {
			verifReach("streaming")
			verifAssert(rateA == ResponseBandwidthRate && burstA == ResponseBandwidthBurstSize, "bandwidth parameters re-derived per request")
		}
	}
}

// C17.1b: validation against the reservation token and header ranges.
func VerifC17Validation() {
	tok, rt := verifToken("req")
	r := verifRequest("req", rt)
	w := newVerifRecorder()
	inv, err := ReceiveDirectInvoke(w, r, tok)
	if err == nil {
		verifReach("ok")
		verifAssert(inv != nil, "accepted request yields an invoke")
		verifAssert(inv.ID == tok.InvokeID && r.Header.Get(InvokeIDHeader) == tok.InvokeID, "accepted only with the token's invoke id")
		verifAssert(rt == tok.ReservationToken, "accepted only with the token's reservation token")
		verifAssert(r.Header.Get(VersionIDHeader) == tok.VersionID, "accepted only with the token's version")
		verifAssert(inv.InvokeReceivedTime <= tok.InvackDeadlineNs, "accepted only before the ack deadline")
		verifAssert(MaxDirectResponseSize >= -1, "payload limit >= -1")
		if r.Header.Get(MaxPayloadSizeHeader) == "" {
			verifAssert(MaxDirectResponseSize == interop.MaxPayloadSize, "absent MaxPayloadSize means the default limit")
		}
		if r.Header.Get(InvokeResponseModeHeader) == "" && MaxDirectResponseSize != -1 {
			verifAssert(inv.InvokeResponseMode == interop.InvokeResponseModeBuffered, "absent InvokeResponseMode means Buffered")
		}
		if inv.InvokeResponseMode == interop.InvokeResponseModeStreaming {
			verifReach("ok-streaming")
			verifAssert(interop.MinResponseBandwidthRate <= ResponseBandwidthRate && ResponseBandwidthRate <= interop.MaxResponseBandwidthRate, "rate within the allowed range")
			verifAssert(interop.MinResponseBandwidthBurstSize <= ResponseBandwidthBurstSize && ResponseBandwidthBurstSize <= interop.MaxResponseBandwidthBurstSize, "burst within the allowed range")
			if r.Header.Get(ResponseBandwidthRateHeader) == "" {
				verifAssert(ResponseBandwidthRate == interop.ResponseBandwidthRate, "absent rate header means default rate")
			}
			if r.Header.Get(ResponseBandwidthBurstSizeHeader) == "" {
				verifAssert(ResponseBandwidthBurstSize == interop.ResponseBandwidthBurstSize, "absent burst header means default burst")
			}
		}
		verifAssert(w.status == 0, "no error status on success")
	} else {
		verifReach("refused")
		verifAssert(inv == nil, "refused request yields no invoke")
		verifAssert(w.status == http.StatusBadRequest, "refusal renders 400")
		verifAssert(w.hdr.Get(ErrorTypeHeader) == err.Error(), "refusal names the error type")
	}
}

// a reader that fails after a symbolic prefix
type verifFaultyReader struct {
	data []byte
	fail bool
	read bool
}

func (r *verifFaultyReader) Read(p []byte) (int, error) {
	panic("not executed natively in symbolic mode")
}
func (r *verifFaultyReader) VerifRead(n int64) ([]byte, error) {
	if r.read {
		return nil, nil
	}
	r.read = true
	d := r.data
	if n >= 0 && int64(len(d)) > n {
		d = d[:n]
	}
	if r.fail {
		return d, io.ErrUnexpectedEOF
	}
	return d, nil
}

// C17.2 (buffered path): bytes are forwarded in order and unaltered, classified
// Complete / Oversized (exactly when longer than the limit, cut one byte past it) / Truncated.
func VerifC17Classify() {
	limit := verifNondetInt64("limit")
	verifAssume(limit >= 0 && limit <= 64*1024*1024)
	MaxDirectResponseSize = limit
	InvokeResponseMode = interop.InvokeResponseModeBuffered
	payload := verifNondetBytes("payload")
	fail := verifNondetBool("copy error")
	rd := &verifFaultyReader{data: payload, fail: fail}
	w := newVerifRecorder()
	ch := make(chan *interop.InvokeResponseMetrics, 1)
	err := sendPayloadLimitedResponse(rd, http.Header{}, w, ch, true)
	n := int64(len(payload))
	trailer := w.hdr.Get(EndOfResponseTrailer)
	if fail {
		verifReach("truncated")
		verifAssert(trailer == EndOfResponseTruncated, "copy error is classified Truncated")
		_, ok := err.(*interop.ErrTruncatedResponse)
		verifAssert(ok, "copy error returns ErrTruncatedResponse")
	} else if n > limit {
		verifReach("oversized")
		verifAssert(trailer == EndOfResponseOversized, "longer than the limit is classified Oversized")
		verifAssert(int64(len(w.body)) == limit+1, "oversized response is cut one byte past the limit")
		verifAssert(string(w.body) == string(payload[:limit+1]), "forwarded bytes are a prefix of the payload")
	} else {
		verifReach("complete")
		verifAssert(trailer == EndOfResponseComplete, "at most the limit is classified Complete")
		verifAssert(err == nil, "complete response returns no error")
		verifAssert(string(w.body) == string(payload), "forwarded bytes equal the payload")
	}
	m := <-ch
	verifAssert(m.ProducedBytes == int64(len(w.body)), "metrics report the forwarded volume")
}

// C17.3a: bucket parameters derived from validated headers are valid and the refill
// arithmetic does not overflow.
func VerifC17BucketParams() {
	rate := verifNondetInt64("rate")
	burst := verifNondetInt64("burst")
	verifAssume(interop.MinResponseBandwidthRate <= rate && rate <= interop.MaxResponseBandwidthRate)
	verifAssume(interop.MinResponseBandwidthBurstSize <= burst && burst <= interop.MaxResponseBandwidthBurstSize)
	ResponseBandwidthRate, ResponseBandwidthBurstSize = rate, burst
	w := newVerifRecorder()
	bw, cancel, err := NewStreamedResponseWriter(w)
	verifAssert(err == nil && bw != nil && cancel != nil, "validated parameters always give a writer")
	// the bucket realises the configured bound burst + rate x elapsed: it starts full at the burst
	// size, never holds more, and is refilled with rate x interval tokens per interval
	capacity, tokens, refill, interval := bandwidthlimiter.VerifBucketParams(bw)
	verifAssert(capacity == burst && tokens == burst, "the bucket holds at most (and initially exactly) the configured burst")
	ms := int64(interval / time.Millisecond)
	verifAssert(ms > 0 && refill*1000 <= rate*ms && refill*1000 > rate*ms-1000, "the refill per interval corresponds to the configured rate")
	verifReach("writer")
}

// ---------------------------------------------------------------------------
// streaming path: reset arriving while the runtime has stalled mid-body

type verifConn struct {
	closed   bool
	closedCh chan struct{}
}

func (c *verifConn) Read(b []byte) (int, error)  { return 0, io.EOF }
func (c *verifConn) Write(b []byte) (int, error) { return len(b), nil }
func (c *verifConn) Close() error {
	if !c.closed {
		c.closed = true
		close(c.closedCh)
	}
	return nil
}
func (c *verifConn) LocalAddr() net.Addr                { return nil }
func (c *verifConn) RemoteAddr() net.Addr               { return nil }
func (c *verifConn) SetDeadline(t time.Time) error      { return nil }
func (c *verifConn) SetReadDeadline(t time.Time) error  { return nil }
func (c *verifConn) SetWriteDeadline(t time.Time) error { return nil }

// a /response body whose sender stalls: the bytes received so far, then nothing until the
// connection is closed (which makes the read fail)
type verifStallingBody struct {
	data  []byte
	conn  *verifConn
	stall bool
	done  bool
}

func (r *verifStallingBody) Read(p []byte) (int, error) { panic("only VerifRead is used") }
func (r *verifStallingBody) VerifRead(n int64) ([]byte, error) {
	if r.done {
		return nil, nil
	}
	r.done = true
	if r.stall {
		<-r.conn.closedCh
		return r.data, io.ErrUnexpectedEOF
	}
	return r.data, nil
}

// C17.2 (streaming): the copy always terminates; a reset during a stalled body is acknowledged,
// classified Truncated, and carries the error type of the reset reason.
func VerifC17StreamReset() {
	verifResetPkgVars()
	MaxDirectResponseSize = -1
	InvokeResponseMode = interop.InvokeResponseModeStreaming
	conn := &verifConn{closedCh: make(chan struct{})}
	stall := verifNondetBool("runtime stalls mid-body")
	data := make([]byte, 3)
	for i := range data {
		data[i] = verifNondetByte("body byte")
	}
	body := &verifStallingBody{data: data, conn: conn, stall: stall}
	req := (&http.Request{Header: http.Header{}}).WithContext(context.WithValue(context.Background(), interop.HTTPConnKey, net.Conn(conn)))
	w := newVerifRecorder()
	interrupted := make(chan *interop.Reset)
	metricsCh := make(chan *interop.InvokeResponseMetrics, 1)
	resetAcked := false
	if stall {
		verifSpawn(func() { // what Server.Reset does
			r := &interop.Reset{Reason: "timeout"}
			interrupted <- r
			<-interrupted
			resetAcked = true
		})
	}
	var err error
	finished := false
	verifSpawn(func() {
		err = sendStreamingInvokeResponse(body, http.Header{}, w, interrupted, metricsCh, &interop.CancellableRequest{Request: req}, true)
		finished = true
	})
	verifWaitAll()
	verifAssert(finished, "the streaming copy always terminates")
	trailer := w.hdr.Get(EndOfResponseTrailer)
	if stall {
		verifReach("reset-during-stall")
		verifAssert(resetAcked, "the reset is acknowledged")
		verifAssert(conn.closed, "the stalled connection is closed to unblock the copy")
		verifAssert(trailer == EndOfResponseTruncated, "a copy interrupted by a reset is classified Truncated")
		verifAssert(w.hdr.Get(FunctionErrorTypeTrailer) == "Sandbox.Timeout", "trailer carries the error type of the reset reason")
		verifAssert(err != nil, "interrupted copy reports an error")
	} else {
		verifReach("complete")
		verifAssert(err == nil && trailer == EndOfResponseComplete, "an uninterrupted copy is classified Complete")
		verifAssert(string(w.body) == string(data), "bytes are forwarded in order and unaltered")
	}
}
