//go:build verif

package core

import "errors"

// Abstract counting latch: the specification the gate is compared against.
type verifLatch struct {
	init     uint16 // the count the latch was created with (restored by clear)
	cnt, arr uint16
	canc     bool
	err      error
}

func (m *verifLatch) holds() bool { return m.arr == m.cnt || m.canc }

var verifErrCustom = errors.New("verif custom cancel error")

// verifGateOp performs one driver operation on the real gate and on the latch
// model and asserts that the results agree. The model update happens in the
// same atomic segment as the operation's critical section (no scheduling point
// lies between the gate's Unlock and the model update).
func verifGateOp(g *gateImpl, m *verifLatch, op int) {
	switch op {
	case 0: // arrival
		err := g.WalkThrough()
		if m.arr == m.cnt {
			verifAssert(err == ErrGateIntegrity, "arrival beyond the expected count is refused")
		} else {
			verifAssert(err == nil, "arrival below the expected count is accepted")
			m.arr++
		}
	case 1: // change expected count
		c := verifNondetUint16("setcount")
		err := g.SetCount(c)
		if c < m.arr {
			verifAssert(err == ErrGateIntegrity, "expected count below arrivals is refused")
		} else {
			verifAssert(err == nil, "expected count >= arrivals is accepted")
			m.cnt = c
		}
	case 2: // re-arm
		g.Reset()
		m.arr = 0 // arrivals are re-armed also for a cancelled gate (which stays cancelled)
	case 3: // cancel with error
		g.CancelWithError(verifErrCustom)
		m.canc, m.err = true, verifErrCustom
	case 4: // cancel without error
		g.CancelWithError(nil)
		m.canc, m.err = true, nil
	case 5: // clear
		g.Clear()
		m.canc, m.arr, m.err = false, 0, nil
		m.cnt = m.init // a cleared gate expects what a new one expects
	case 6: // register more
		c := verifNondetUint16("register")
		verifAssume(uint32(m.cnt)+uint32(c) <= 65535)
		g.Register(c)
		m.cnt += c
	}
	verifAssert(g.count == m.cnt && g.arrived == m.arr && g.canceled == m.canc, "gate state equals latch model after the operation")
}

func verifGateHarness(nWaiters, nOps int) {
	init := verifNondetUint16("initial count")
	g := NewGate(init).(*gateImpl)
	m := &verifLatch{init: init, cnt: init}
	returned := make([]bool, nWaiters)
	for w := 0; w < nWaiters; w++ {
		w := w
		verifSpawnEnv(func() {
			err := g.AwaitGateCondition()
			// the latch state at the moment the waiter leaves the critical section
			verifAssert(m.holds(), "waiter returns only when arrivals == count or cancelled")
			if err == nil {
				verifAssert(!m.canc, "waiter returns success only if not cancelled")
				verifReach("waiter-nil")
			} else if m.err != nil {
				verifAssert(m.canc && err == m.err, "waiter returns the cancellation error")
				verifReach("waiter-err")
			} else {
				verifAssert(m.canc && err == ErrGateCanceled, "waiter returns ErrGateCanceled when cancelled without error")
				verifReach("waiter-canceled")
			}
			returned[w] = true
		})
	}
	for i := 0; i < nOps; i++ {
		verifGateOp(g, m, verifChoice(7, "driver op"))
	}
	verifSettle()
	for w := 0; w < nWaiters; w++ {
		if !returned[w] {
			verifReach("waiter-parked")
			verifAssert(!m.holds(), "no waiter stays blocked once its condition holds (lost wake-up)")
		}
	}
}

func VerifC11Gate_W1_D2() { verifGateHarness(1, 2) }
func VerifC11Gate_W2_D3() { verifGateHarness(2, 3) }
func VerifC11Gate_W2_D4() { verifGateHarness(2, 4) }
func VerifC11Gate_W3_D4() { verifGateHarness(3, 4) }
