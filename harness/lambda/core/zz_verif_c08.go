//go:build verif

package core

import "fmt"

// VerifLeftover renders the per-generation state of the registration service and of the
// init/invoke barriers (what Clear() is supposed to wipe) for the C08 comparison.
func VerifLeftover(rs RegistrationService, initFlow InitFlowSynchronization, invokeFlow InvokeFlowSynchronization) string {
	s := rs.(*registrationServiceImpl)
	out := fmt.Sprintf("runtime=%v internal=%d external=%d state=%d", s.runtime != nil, len(s.internalAgents.byName), len(s.externalAgents.byName), s.state)
	gate := func(name string, g Gate) {
		gi := g.(*gateImpl)
		out += fmt.Sprintf(" %s{count=%d arrived=%d canceled=%v err=%v}", name, gi.count, gi.arrived, gi.canceled, gi.err != nil)
	}
	i := initFlow.(*initFlowSynchronizationImpl)
	gate("init.extRegistered", i.externalAgentsRegisteredGate)
	gate("init.runtimeReady", i.runtimeReadyGate)
	gate("init.agentReady", i.agentReadyGate)
	gate("init.restoreReady", i.runtimeRestoreReadyGate)
	v := invokeFlow.(*invokeFlowSynchronizationImpl)
	gate("invoke.runtimeReady", v.runtimeReadyGate)
	gate("invoke.runtimeResponse", v.runtimeResponseGate)
	gate("invoke.agentReady", v.agentReadyGate)
	return out
}
