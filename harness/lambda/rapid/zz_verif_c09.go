//go:build verif

package rapid

import (
	"fmt"
	"strings"
	"time"

	"go.amzn.com/lambda/interop"
)

// extension behaviours during shutdown
const (
	veSubExits      = iota // subscribed to SHUTDOWN, exits (status 0) on the event
	veSubIgnores           // subscribed to SHUTDOWN, receives the event and keeps running
	veUnsub                // not subscribed to SHUTDOWN
	veLaunchFail           // failed to launch
	veSubExits1            // subscribed, exits with status 1 on the event
	veAlreadyExited        // subscribed, but exited by itself (status 0) before the operation began
)

// runtime behaviours during shutdown
const (
	vrExitsOnTerm = iota
	vrIgnoresTerm
	vrAlreadyExited // exited by itself before the operation began
)

func (w *verifWorld) t() int64 { return time.Now().UnixNano() }

// verifShutdown: init with nExt extensions, then a reset / shutdown with `allowanceMs` of time.
func verifShutdown(nExt int, trigger string) {
	entries := []verifDirEntry{}
	beh := make([]int, nExt)
	events := map[string][]string{}
	for i := 0; i < nExt; i++ {
		n := fmt.Sprintf("ext%d", i)
		entries = append(entries, verifDirEntry{name: n})
		beh[i] = []int{veSubExits, veSubIgnores, veUnsub, veLaunchFail, veSubExits1, veAlreadyExited}[verifChoice(6, "extension behaviour")]
		if beh[i] == veUnsub {
			events[n] = []string{"INVOKE"}
		} else {
			events[n] = []string{"SHUTDOWN"}
		}
	}
	rtBeh := []int{vrExitsOnTerm, vrIgnoresTerm, vrAlreadyExited}[verifChoice(3, "runtime behaviour")]
	w := newVerifWorld(entries, true, false)
	launchFails := false
	for i := 0; i < nExt; i++ {
		if beh[i] == veLaunchFail {
			w.sup.execFail[fmt.Sprintf("extension-ext%d-1", i)] = true
			launchFails = true
		}
	}
	shutdownEvents := map[string]int{}
	w.sup.runtimeScript = func(p *verifProc) {
		p.ignoreTerm = rtBeh == vrIgnoresTerm
		if verifC09Internal {
			// an internal extension living inside the runtime process (INVOKE only: internal
			// extensions cannot subscribe to SHUTDOWN)
			verifSpawnEnv(func() {
				rec := w.extRegister("internal:internal0", "internal0", []string{"INVOKE"})
				if rec.status == 200 {
					w.extNext("internal:internal0", rec.hdr.Get("Lambda-Extension-Identifier"))
				}
			})
		}
		w.runtimeNext(p.name)
	}
	w.sup.extScript = func(p *verifProc, base string) {
		who := p.name
		idx := int(base[3] - '0')
		rec := w.extRegister(who, base, events[base])
		if rec.status != 200 {
			return
		}
		id := rec.hdr.Get("Lambda-Extension-Identifier")
		for k := 0; k < 3; k++ {
			r := w.extNext(who, id)
			if r.status != 200 || p.dead {
				return
			}
			b := string(r.body)
			if strings.Contains(b, `"eventType":"SHUTDOWN"`) {
				shutdownEvents[who]++
				w.lastBody[who] = b
				w.note(who, "got-shutdown", "")
				switch beh[idx] {
				case veSubExits:
					w.sup.exit(p, 0, 0)
				case veSubExits1:
					w.sup.exit(p, 1, 0)
				case veSubIgnores:
					verifBlockForever()
				}
				return
			}
		}
	}

	ir := w.doInit()
	verifWaitAll()
	verifSettle()
	if launchFails {
		verifAssert(ir.done && !ir.success, "a failed extension launch fails the initialisation")
	} else {
		verifAssert(ir.done && ir.success, "initialisation completes")
	}
	runtimeStarted := w.count("supervisor", "exec", "runtime-1|/var/runtime/bootstrap") == 1
	// processes that exit by themselves before the operation begins
	for i := 0; i < nExt; i++ {
		if p := w.sup.procs[fmt.Sprintf("extension-ext%d-1", i)]; p != nil && beh[i] == veAlreadyExited && !p.dead {
			w.sup.exit(p, 0, 0)
			verifReach("extension-already-exited")
		}
	}
	if p := w.sup.procs["runtime-1"]; p != nil && rtBeh == vrAlreadyExited && !p.dead {
		w.sup.exit(p, 0, 0)
		verifReach("runtime-already-exited")
	}
	verifSettle()

	const allowanceMs = 2000
	start := w.t()
	deadlineNs := time.Now().UnixNano() // wall; the platform passes monotonic deadlines:
	_ = deadlineNs
	w.note("platform", "shutdown-begin", trigger)
	switch trigger {
	case "shutdown":
		w.ctx.HandleShutdown(&interop.Shutdown{DeadlineNs: w.mono() + allowanceMs*1000000})
	default:
		w.ctx.HandleReset(&interop.Reset{Reason: trigger, DeadlineNs: w.mono() + allowanceMs*1000000})
	}
	end := w.note("platform", "shutdown-end", trigger)
	verifReach("returned")
	// always within the deadline plus a bounded allowance (the fixed 2 s grace for unreaped processes)
	verifAssert(w.t()-start <= (allowanceMs+2000+50)*1000000, "the operation returns within the deadline plus the fixed grace")
	if !launchFails {
		verifAssert(w.t()-start <= (allowanceMs+50)*1000000, "with every process reaped the operation returns by the deadline")
	}

	launched := 0
	for i := 0; i < nExt; i++ {
		if beh[i] != veLaunchFail {
			launched++
		}
	}
	registered := w.count("", "register-returned", "200")
	rt := "runtime-1"
	kills := func(name string) int { return w.count("supervisor", "kill", name) }
	terms := func(name string) int { return w.count("supervisor", "terminate", name) }
	timeOf := func(what, name string) int64 {
		for _, e := range w.log {
			if e.who == "supervisor" && e.what == what && e.arg == name {
				return w.times[e.seq]
			}
		}
		return 0
	}

	if runtimeStarted {
		if registered == 0 && !launchFails {
			verifReach("no-extensions")
			verifAssert(kills(rt) == 1 && terms(rt) == 0, "with no extension registered the runtime is killed at once, without TERM")
		} else if registered > 0 {
			verifReach("with-extensions")
			verifAssert(terms(rt) == 1, "with extensions the runtime is first sent TERM")
			if rtBeh == vrAlreadyExited {
				verifAssert(kills(rt) == 0, "a runtime that has already exited is not killed")
			} else if rtBeh == vrExitsOnTerm {
				verifAssert(kills(rt) == 0, "a runtime that exits on TERM is not killed")
			} else {
				verifAssert(kills(rt) == 1, "a runtime that ignores TERM is killed")
				kt := timeOf("kill", rt)
				verifAssert(kt-start >= allowanceMs*1000000*3/10-1000000, "the runtime is killed only after 30% of the allowed time")
				verifAssert(timeOf("terminate", rt) < kt, "TERM precedes KILL")
			}
		}
		verifAssert(w.count("supervisor", "exited", rt) == 1, "the operation returns only after the runtime has been reaped")
	}
	for i := 0; i < nExt; i++ {
		name := fmt.Sprintf("extension-ext%d-1", i)
		switch beh[i] {
		case veLaunchFail:
			verifAssert(kills(name) == 0 && shutdownEvents[name] == 0, "an extension that failed to launch is neither signalled nor sent an event")
		case veUnsub:
			if registered > 0 && w.first(name, "register-returned", "200") > 0 {
				verifAssert(shutdownEvents[name] == 0, "an extension not subscribed to SHUTDOWN receives no event")
				verifAssert(kills(name) == 1, "an extension not subscribed to SHUTDOWN is killed")
			}
		case veAlreadyExited:
			if w.first(name, "register-returned", "200") > 0 && runtimeStarted {
				verifAssert(kills(name) == 0, "an extension that has already exited is not killed")
			}
		case veSubExits, veSubExits1, veSubIgnores:
			if w.first(name, "register-returned", "200") == 0 || !runtimeStarted {
				continue // init failed before this extension took part
			}
			verifAssert(shutdownEvents[name] == 1, "each SHUTDOWN subscriber receives exactly one SHUTDOWN event")
			b := w.lastBody[name]
			reason := trigger
			if trigger == "shutdown" {
				reason = "spindown"
			}
			verifAssert(strings.Contains(b, `"shutdownReason":"`+reason+`"`), "the SHUTDOWN event carries the reason")
			if beh[i] == veSubIgnores {
				verifAssert(kills(name) == 1, "a subscriber still alive at the deadline is killed")
				verifAssert(timeOf("kill", name)-start >= allowanceMs*1000000-1000000, "a subscriber is killed only at the deadline")
				verifAssert(timeOf("kill", name)-start <= allowanceMs*1000000+50*1000000, "a subscriber still alive at the deadline is killed at the deadline, not later")
			} else {
				verifAssert(kills(name) == 0, "a subscriber that exited on the event is not killed")
			}
		}
		if beh[i] != veLaunchFail && w.first("supervisor", "exec", name+"|/opt/extensions/"+fmt.Sprintf("ext%d", i)) > 0 {
			ex := w.first("supervisor", "exited", name)
			verifAssert(ex > 0 && ex < end, "the operation returns only after every started extension has been reaped")
		}
	}
}

var verifC09Internal bool

// the only registered extension is an INTERNAL one: it counts as an extension (TERM first)
func VerifC09Reset0Internal() { verifC09Internal = true; verifShutdown(0, "timeout") }

func VerifC09Reset0()        { verifShutdown(0, "timeout") }
func VerifC09Reset1()        { verifShutdown(1, "timeout") }
func VerifC09Reset1Failure() { verifShutdown(1, "failure") }
func VerifC09Shutdown1()     { verifShutdown(1, "shutdown") }
func VerifC09Reset2()        { verifShutdown(2, "timeout") }
func VerifC09Shutdown2()     { verifShutdown(2, "shutdown") }

// A reset that gave up on an unreapable process (its exit is never reported) returns after the
// fixed 2 s grace; the operations that follow are not affected: a second reset returns at once and
// a shutdown of a fresh generation shows the normal choreography.
func VerifC09AfterUnreaped() {
	w := newVerifWorld(nil, true, false)
	w.sup.neverReport = "runtime-1"
	w.sup.runtimeScript = func(p *verifProc) { w.runtimeNext(p.name) }
	ir := w.doInit()
	verifWaitAll()
	verifSettle()
	verifAssert(ir.done && ir.success, "initialisation completes")
	t0 := w.t()
	w.ctx.HandleReset(&interop.Reset{Reason: "timeout", DeadlineNs: w.mono() + 2000*1000000})
	d1 := w.t() - t0
	verifAssert(d1 >= 1900*1000000 && d1 <= 4100*1000000, "a reset that cannot reap a process returns after the fixed grace, within deadline plus grace")
	verifReach("gave-up")
	t1 := w.t()
	w.ctx.HandleReset(&interop.Reset{Reason: "timeout", DeadlineNs: w.mono() + 2000*1000000})
	verifAssert(w.t()-t1 <= 100*1000000, "a later reset with nothing running returns at once")
	verifReach("second-reset-returned")
	t2 := w.t()
	w.ctx.HandleShutdown(&interop.Shutdown{DeadlineNs: w.mono() + 2000*1000000})
	verifAssert(w.t()-t2 <= 100*1000000, "a later shutdown with nothing running returns at once")
	verifReach("done")
}

// C15 (orchestrator level, reset reasons "failure"/"timeout" as the platform API defines them):
// healthy invocation A; B's runtime exits -> failure reset; C re-initialises inline and the new
// runtime exits during that initialisation -> failure reset; healthy D. The event monitor checks
// that every runtime-done (also the one emitted by a reset) carries the id of the invocation it
// follows, with at most one per invocation.
func VerifC15ResetRuntimeDone() {
	w := newVerifWorld(nil, true, false)
	w.SetPlan([][]int{{VbRespond, VbExit}, {VbExitEarly}, {VbRespond}})
	w.sup.runtimeScript = w.plannedRuntime()
	ir := w.doInit()
	verifWaitAll()
	verifAssert(ir.done && ir.success, "initialisation completes")
	a := w.doInvoke("req-A", []byte("a"))
	verifAssert(a.failure == nil, "A succeeds")
	b := w.doInvoke("req-B", []byte("b"))
	verifAssert(b.failure != nil, "B fails (runtime exit)")
	w.doReset("failure", 2000)
	c := w.doInvoke("req-C", []byte("c"))
	verifAssert(c.failure != nil, "C fails (runtime exits during the inline initialisation)")
	w.doReset("failure", 2000)
	d := w.doInvoke("req-D", []byte("d"))
	verifAssert(d.failure == nil, "D is served by a new generation")
	verifSettle()
	w.CheckEventGrammar()
	verifReach("done")
}
