//go:build verif

package rapid

// ORCH composition: the real rapidContext (built field by field like rapid.Start,
// without the TCP listener), real registration service / flows / rendering
// service / app context, the real Runtime API and Extensions API handler bodies
// with the real middleware; harness-written: fake supervisor, fake interop
// server, recording EventsAPI, scripted runtime and extension "processes".

import (
	"bytes"
	"context"
	"encoding/json"
	"errors"
	"fmt"
	"io"
	"io/fs"
	"net/http"
	"net/url"
	"os"
	"strings"
	"sync"
	"time"

	"go.amzn.com/lambda/appctx"
	"go.amzn.com/lambda/core"
	"go.amzn.com/lambda/extensions"
	"go.amzn.com/lambda/fatalerror"
	"go.amzn.com/lambda/interop"
	"go.amzn.com/lambda/metering"
	"go.amzn.com/lambda/rapi"
	"go.amzn.com/lambda/rapi/handler"
	"go.amzn.com/lambda/rapi/middleware"
	"go.amzn.com/lambda/rapi/model"
	"go.amzn.com/lambda/rapi/rendering"
	"go.amzn.com/lambda/rapidcore/env"
	supvmodel "go.amzn.com/lambda/supervisor/model"
	"go.amzn.com/lambda/telemetry"
)

// ---------------------------------------------------------------------------
// ghost log

type verifEv struct {
	seq  int
	who  string
	what string
	arg  string
}

// ---------------------------------------------------------------------------
// recording http.ResponseWriter

type verifRec struct {
	hdr    http.Header
	status int
	body   []byte
}

func newVerifRec() *verifRec { return &verifRec{hdr: http.Header{}} }

func (w *verifRec) Header() http.Header { return w.hdr }
func (w *verifRec) Write(p []byte) (int, error) {
	if w.status == 0 {
		w.status = 200
	}
	w.body = append(w.body, p...)
	return len(p), nil
}
func (w *verifRec) WriteHeader(s int) {
	if w.status == 0 {
		w.status = s
	}
}

// ---------------------------------------------------------------------------
// fake interop server + response sender (what rapidcore.Server is to rapid)

type verifInterop struct {
	mu        sync.Mutex
	currentID string
	sent      bool
	responses []string // "<id>:<body>"
	errors    []string
	initErrs  []*interop.ErrorInvokeResponse
	ready     int
}

func (s *verifInterop) GetCurrentInvokeID() string {
	s.mu.Lock()
	defer s.mu.Unlock()
	return s.currentID
}
func (s *verifInterop) SendRuntimeReady() error { s.ready++; return nil }
func (s *verifInterop) SendInitErrorResponse(r *interop.ErrorInvokeResponse) error {
	s.mu.Lock()
	defer s.mu.Unlock()
	s.initErrs = append(s.initErrs, r)
	return nil
}
func (s *verifInterop) SendResponse(id string, r *interop.StreamableInvokeResponse) error {
	data, err := io.ReadAll(r.Payload)
	if err != nil {
		return err
	}
	s.mu.Lock()
	defer s.mu.Unlock()
	if id != s.currentID || id == "" {
		return interop.ErrInvalidInvokeID
	}
	if s.sent {
		return interop.ErrResponseSent
	}
	if len(data) > interop.MaxPayloadSize {
		return &interop.ErrorResponseTooLarge{ResponseSize: len(data), MaxResponseSize: interop.MaxPayloadSize}
	}
	s.sent = true
	s.responses = append(s.responses, id+":"+string(data))
	return nil
}
func (s *verifInterop) SendErrorResponse(id string, r *interop.ErrorInvokeResponse) error {
	s.mu.Lock()
	defer s.mu.Unlock()
	if id != s.currentID || id == "" {
		return interop.ErrInvalidInvokeID
	}
	if s.sent {
		return interop.ErrResponseSent
	}
	s.sent = true
	s.errors = append(s.errors, id+":"+string(r.FunctionError.Type)+":"+string(r.Payload))
	return nil
}
func (s *verifInterop) begin(id string) {
	s.mu.Lock()
	s.currentID, s.sent = id, false
	s.mu.Unlock()
}
func (s *verifInterop) end() {
	s.mu.Lock()
	s.currentID = ""
	s.mu.Unlock()
}

// ---------------------------------------------------------------------------
// recording EventsAPI

type verifEvents struct {
	telemetry.NoOpEventsAPI
	w         *verifWorld
	requestID interop.RequestID // like the standalone events API: runtime-done lines carry the id published last
}

func (e *verifEvents) SetCurrentRequestID(id interop.RequestID) { e.requestID = id }

func (e *verifEvents) SendInitStart(d interop.InitStartData) error {
	e.w.note("platform", "initStart", string(d.Phase))
	return nil
}
func (e *verifEvents) SendInitRuntimeDone(d interop.InitRuntimeDoneData) error {
	et := ""
	if d.ErrorType != nil {
		et = *d.ErrorType
	}
	e.w.note("platform", "initRuntimeDone", string(d.Phase)+"/"+d.Status+"/"+et)
	return nil
}
func (e *verifEvents) SendInitReport(d interop.InitReportData) error {
	e.w.note("platform", "initReport", string(d.Phase))
	return nil
}
func (e *verifEvents) SendExtensionInit(d interop.ExtensionInitData) error {
	e.w.note("platform", "extensionInit", d.AgentName+"/"+d.State+"/"+d.ErrorType+"/"+strings.Join(d.Subscriptions, ","))
	return nil
}
func (e *verifEvents) SendInvokeStart(d interop.InvokeStartData) error {
	e.w.note("platform", "invokeStart", d.RequestID)
	return nil
}
func (e *verifEvents) SendInvokeRuntimeDone(d interop.InvokeRuntimeDoneData) error {
	et := ""
	if d.ErrorType != nil {
		et = *d.ErrorType
	}
	e.w.note("platform", "invokeRuntimeDoneID", string(e.requestID))
	e.w.note("platform", "invokeRuntimeDone", d.Status+"/"+et)
	return nil
}
func (e *verifEvents) SendRestoreRuntimeDone(d interop.RestoreRuntimeDoneData) error {
	et := ""
	if d.ErrorType != nil {
		et = *d.ErrorType
	}
	e.w.note("platform", "restoreRuntimeDone", d.Status+"/"+et)
	return nil
}

// ---------------------------------------------------------------------------
// fake supervisor

type verifProc struct {
	name       string
	path       string
	env        map[string]string
	dead       bool
	exitPosted bool
	termed     bool
	killed     bool
	ignoreTerm bool
}

type verifSupervisor struct {
	w        *verifWorld
	events   chan supvmodel.Event
	procs    map[string]*verifProc
	order    []string
	execFail map[string]bool
	// behaviour of a started process, by name prefix
	runtimeScript func(p *verifProc)
	extScript     func(p *verifProc, base string)
	asyncEvents   bool
	neverReport   string // the exit of this process is never reported (unreapable)
	latePhase     int
	lateUsed      bool
}

func (s *verifSupervisor) Exec(ctx context.Context, req *supvmodel.ExecRequest) error {
	s.w.note("supervisor", "exec", req.Name+"|"+req.Path)
	if s.execFail[req.Name] {
		return errors.New("exec failed: no such file or directory")
	}
	p := &verifProc{name: req.Name, path: req.Path}
	if req.Env != nil {
		p.env = *req.Env
	}
	s.procs[req.Name] = p
	s.order = append(s.order, req.Name)
	if strings.HasPrefix(req.Name, "runtime-") {
		if s.runtimeScript != nil {
			verifSpawnEnv(func() { s.runtimeScript(p) })
		}
	} else if s.extScript != nil {
		base := req.Path[strings.LastIndex(req.Path, "/")+1:]
		verifSpawnEnv(func() { s.extScript(p, base) })
	}
	return nil
}

// exit makes process p terminate and posts its (single) termination event.
func (s *verifSupervisor) exit(p *verifProc, status int32, signo int32) {
	if p.exitPosted {
		return
	}
	p.dead, p.exitPosted = true, true
	s.w.note("supervisor", "exited", p.name)
	domain := RuntimeDomain
	name := p.name
	ev := supvmodel.Event{Event: supvmodel.EventData{EvType: "process_termination", Domain: &domain, Name: &name}}
	if signo != 0 {
		ev.Event.Signo = &signo
	} else {
		ev.Event.ExitStatus = &status
	}
	if name == s.neverReport {
		return
	}
	if s.asyncEvents {
		// like the local supervisor: termination becomes visible to Kill first, the event is
		// delivered by a goroutine of its own and may be handled late
		verifSpawnEnv(func() { s.events <- ev })
		return
	}
	if s.latePhase > 0 && signo == 9 && !s.lateUsed {
		// the notification about a killed process is handled late: only once the chosen
		// phase of the NEXT invocation has been reached (C08)
		s.lateUsed = true
		w := s.w
		begins, gots, ends := w.countWhat("invoke-begin"), w.countWhat("got-invoke"), w.countWhat("invoke-end")
		phase := s.latePhase
		verifSpawnEnv(func() {
			verifWaitUntil(func() bool {
				switch phase {
				case 1:
					return w.countWhat("invoke-begin") > begins
				case 2:
					return w.countWhat("got-invoke") > gots
				default:
					return w.countWhat("invoke-end") > ends+1
				}
			})
			w.note("supervisor", "late-exit-event", name)
			s.events <- ev
		})
		return
	}
	s.events <- ev
}

func (w *verifWorld) CountWhat(what string) int { return w.countWhat(what) }

func (w *verifWorld) countWhat(what string) int {
	n := 0
	for _, e := range w.log {
		if e.what == what {
			n++
		}
	}
	return n
}

func (s *verifSupervisor) Terminate(ctx context.Context, req *supvmodel.TerminateRequest) error {
	s.w.note("supervisor", "terminate", req.Name)
	p := s.procs[req.Name]
	if p == nil {
		return &supvmodel.SupervisorError{Kind: supvmodel.NoSuchEntity}
	}
	p.termed = true
	if !p.dead && !p.ignoreTerm {
		s.exit(p, 0, 15)
	}
	return nil
}

func (s *verifSupervisor) Kill(ctx context.Context, req *supvmodel.KillRequest) error {
	s.w.note("supervisor", "kill", req.Name)
	p := s.procs[req.Name]
	if p == nil {
		return &supvmodel.SupervisorError{Kind: supvmodel.NoSuchEntity}
	}
	if !p.exitPosted && !req.Deadline.After(time.Now()) {
		// like the local supervisor: a kill request whose deadline already passed is refused
		return errors.New("invalid timeout while killing " + req.Name)
	}
	p.killed = true
	if !p.exitPosted {
		s.exit(p, 0, 9)
	}
	return nil
}

func (s *verifSupervisor) Events(ctx context.Context, req *supvmodel.EventsRequest) (<-chan supvmodel.Event, error) {
	return s.events, nil
}

// ---------------------------------------------------------------------------
// fake bootstrap and directory entries

type verifBootstrap struct{}

func (b *verifBootstrap) Cmd() ([]string, error)                   { return []string{"/var/runtime/bootstrap"}, nil }
func (b *verifBootstrap) Env(e *env.Environment) map[string]string { return e.RuntimeExecEnv() }
func (b *verifBootstrap) Cwd() (string, error)                     { return "/var/task", nil }
func (b *verifBootstrap) ExtraFiles() []*os.File                   { return nil }
func (b *verifBootstrap) CachedFatalError(err error) (fatalerror.ErrorType, string, bool) {
	return "", "", false
}

type verifDirEntry struct {
	name string
	dir  bool
}

func (d verifDirEntry) Name() string               { return d.name }
func (d verifDirEntry) IsDir() bool                { return d.dir }
func (d verifDirEntry) Type() fs.FileMode          { return 0 }
func (d verifDirEntry) Info() (fs.FileInfo, error) { return nil, nil }

// ---------------------------------------------------------------------------
// the world

type verifWorld struct {
	ctx                                                    *rapidContext
	sup                                                    *verifSupervisor
	iop                                                    *verifInterop
	seq                                                    int
	log                                                    []verifEv
	appCtx                                                 appctx.ApplicationContext
	rs                                                     core.RegistrationService
	render                                                 *rendering.EventRenderingService
	hNext                                                  http.Handler
	hResp                                                  http.Handler
	hErr                                                   http.Handler
	hInitE                                                 http.Handler
	hReg                                                   http.Handler
	hANext                                                 http.Handler
	hAInitE                                                http.Handler
	hAExitE                                                http.Handler
	hRNext                                                 http.Handler
	hRErr                                                  http.Handler
	rtRouter, extRouter                                    http.Handler
	initReq                                                *interop.Init
	sbInfo                                                 interop.SandboxInfoFromInit
	reqBuf                                                 *bytes.Buffer
	lastBody                                               map[string]string
	rtBodies, rtArns, rtResponses, rtStatuses, rtDeadlines []string
	slowInit                                               bool
	rtIgnoresTerm                                          bool
	holdWho                                                string
	holding                                                bool
	heldSince                                              int
	onHold                                                 func(who, phase string)
	extIDs                                                 []string // identifiers handed out to extensions, in order
	extReportsOnShutdown                                   bool
	rtPlan                                                 [][]int
	times                                                  map[int]int64
	rtStarted                                              int
	bodies                                                 map[string][]string
}

// mono: the platform's monotonic clock as metering.Monotime() reports it
func (w *verifWorld) mono() int64 { return metering.Monotime() }

func (w *verifWorld) note(who, what, arg string) int {
	w.seq++
	if w.times == nil {
		w.times = map[int]int64{}
	}
	w.times[w.seq] = time.Now().UnixNano()
	w.log = append(w.log, verifEv{w.seq, who, what, arg})
	return w.seq
}

// first returns the sequence number of the first matching entry (0 = none).
func (w *verifWorld) first(who, what, arg string) int {
	for _, e := range w.log {
		if (who == "" || e.who == who) && e.what == what && (arg == "" || e.arg == arg) {
			return e.seq
		}
	}
	return 0
}

func (w *verifWorld) count(who, what, arg string) int {
	n := 0
	for _, e := range w.log {
		if (who == "" || e.who == who) && e.what == what && (arg == "" || e.arg == arg) {
			n++
		}
	}
	return n
}

func (w *verifWorld) countPrefix(who, what, argPrefix string) int {
	n := 0
	for _, e := range w.log {
		if (who == "" || e.who == who) && e.what == what && strings.HasPrefix(e.arg, argPrefix) {
			n++
		}
	}
	return n
}

func newVerifWorld(entries []verifDirEntry, standalone bool, initCaching bool) *verifWorld {
	return newVerifWorldWith(nil, entries, standalone, initCaching)
}

// newVerifWorldWith: iop == nil uses the harness' fake interop server; otherwise the given
// (real) interop server is wired in, as rapidcore's sandbox builder does.
func newVerifWorldWith(iop interop.Server, entries []verifDirEntry, standalone bool, initCaching bool) *verifWorld {
	w := &verifWorld{lastBody: map[string]string{}, bodies: map[string][]string{}}
	verifDaemon("watchEvents")
	extensions.Enable()
	verifStub("os.ReadDir", func(name string) ([]os.DirEntry, error) {
		if entries == nil {
			return nil, errors.New("open " + name + ": no such file or directory")
		}
		out := make([]os.DirEntry, len(entries))
		for i, e := range entries {
			out[i] = e
		}
		return out, nil
	})

	appCtx := appctx.NewApplicationContext()
	initFlow := core.NewInitFlowSynchronization()
	invokeFlow := core.NewInvokeFlowSynchronization()
	registrationService := core.NewRegistrationService(initFlow, invokeFlow)
	renderingService := rendering.NewRenderingService()
	credentialsService := core.NewCredentialsService()
	appctx.StoreInitType(appCtx, initCaching)

	if iop == nil {
		w.iop = &verifInterop{}
		iop = w.iop
	}
	appctx.StoreInteropServer(appCtx, iop)
	w.sup = &verifSupervisor{w: w, events: make(chan supvmodel.Event, 8), procs: map[string]*verifProc{}, execFail: map[string]bool{}}

	w.ctx = &rapidContext{
		appCtx:                appCtx,
		initDone:              false,
		initFlow:              initFlow,
		invokeFlow:            invokeFlow,
		registrationService:   registrationService,
		renderingService:      renderingService,
		credentialsService:    credentialsService,
		handlerExecutionMutex: sync.Mutex{},
		shutdownContext:       newShutdownContext(),

		logsSubscriptionAPI:      &telemetry.NoOpSubscriptionAPI{},
		telemetrySubscriptionAPI: &telemetry.NoOpSubscriptionAPI{},
		logsEgressAPI:            &telemetry.NoOpLogsEgressAPI{},
		interopServer:            iop,
		xray:                     &telemetry.NoOpTracer{},
		standaloneMode:           standalone,
		eventsAPI:                &verifEvents{w: w},
		initCachingEnabled:       initCaching,
		supervisor: processSupervisor{
			ProcessSupervisor: w.sup,
			RootPath:          "/",
		},
		RuntimeStartedTime:         -1,
		RuntimeOverheadStartedTime: -1,
	}
	w.appCtx, w.rs, w.render = appCtx, registrationService, renderingService

	mw := middleware.AppCtxMiddleware(appCtx)
	w.hNext = mw(handler.NewInvocationNextHandler(registrationService, renderingService))
	w.hResp = mw(middleware.AwsRequestIDValidator(handler.NewInvocationResponseHandler(registrationService)))
	w.hErr = mw(middleware.AwsRequestIDValidator(handler.NewInvocationErrorHandler(registrationService)))
	w.hInitE = mw(handler.NewInitErrorHandler(registrationService))
	w.hReg = mw(handler.NewAgentRegisterHandler(registrationService))
	w.hANext = mw(middleware.AgentUniqueIdentifierHeaderValidator(handler.NewAgentNextHandler(registrationService, renderingService)))
	w.hAInitE = mw(middleware.AgentUniqueIdentifierHeaderValidator(handler.NewAgentInitErrorHandler(registrationService)))
	w.hAExitE = mw(middleware.AgentUniqueIdentifierHeaderValidator(handler.NewAgentExitErrorHandler(registrationService)))
	w.hRNext = mw(handler.NewRestoreNextHandler(registrationService, renderingService))
	w.hRErr = mw(handler.NewRestoreErrorHandler(registrationService))
	// the real chi routers with their middleware chains (what rapi.NewServer mounts under /2018-06-01)
	appctx.StoreInitType(appCtx, initCaching)
	w.rtRouter = rapi.NewRouter(appCtx, registrationService, renderingService)
	w.extRouter = rapi.ExtensionsRouter(appCtx, registrationService, renderingService)

	e := env.NewEnvironment()
	e.StoreRuntimeAPIEnvironmentVariable("127.0.0.1:9001")
	w.initReq = &interop.Init{
		InvokeID:                     "init-1",
		Handler:                      "app.handler",
		AccountID:                    "123456789012",
		FunctionName:                 "fn",
		FunctionVersion:              "$LATEST",
		CustomerEnvironmentVariables: map[string]string{},
		EnvironmentVariables:         e,
		Bootstrap:                    &verifBootstrap{},
		SandboxType:                  interop.SandboxClassic,
	}
	w.sbInfo = interop.SandboxInfoFromInit{EnvironmentVariables: e, SandboxType: interop.SandboxClassic, RuntimeBootstrap: w.initReq.Bootstrap}
	w.reqBuf = &bytes.Buffer{}
	return w
}

// ---------------------------------------------------------------------------
// API calls made by scripted processes

// call sends a request through the real router (routing, URL parameters and middleware chain
// are the implementation's); path is relative to the API version prefix.
func (w *verifWorld) call(path string, method string, hdr http.Header, body []byte) *verifRec {
	rec := newVerifRec()
	if hdr == nil {
		hdr = http.Header{}
	}
	r := &http.Request{Method: method, URL: &url.URL{Path: path}, Header: hdr, Body: io.NopCloser(bytes.NewReader(body))}
	r = r.WithContext(context.Background())
	if strings.HasPrefix(path, "/extension/") {
		w.extRouter.ServeHTTP(rec, r)
	} else {
		w.rtRouter.ServeHTTP(rec, r)
	}
	return rec
}

// callDirect calls a handler that is not mounted on the two routers (credentials endpoint)
func (w *verifWorld) callDirect(h http.Handler, method string, hdr http.Header) *verifRec {
	rec := newVerifRec()
	r := &http.Request{Method: method, URL: &url.URL{Path: "/"}, Header: hdr, Body: io.NopCloser(bytes.NewReader(nil))}
	h.ServeHTTP(rec, r.WithContext(context.Background()))
	return rec
}

func (w *verifWorld) runtimeNext(who string) *verifRec {
	w.note(who, "next-issued", "")
	rec := w.call("/runtime/invocation/next", "GET", nil, nil)
	w.note(who, "next-returned", fmt.Sprint(rec.status))
	return rec
}

func (w *verifWorld) runtimeResponse(who, id string, payload []byte) *verifRec {
	w.note(who, "response-issued", id)
	rec := w.call("/runtime/invocation/"+id+"/response", "POST", nil, payload)
	w.note(who, "response-returned", fmt.Sprint(rec.status))
	return rec
}

func (w *verifWorld) runtimeError(who, id string, errType string, payload []byte) *verifRec {
	h := http.Header{}
	h.Set("Lambda-Runtime-Function-Error-Type", errType)
	w.note(who, "error-issued", id)
	rec := w.call("/runtime/invocation/"+id+"/error", "POST", h, payload)
	w.note(who, "error-returned", fmt.Sprint(rec.status))
	return rec
}

func (w *verifWorld) runtimeInitError(who string, errType string, payload []byte) *verifRec {
	h := http.Header{}
	h.Set("Lambda-Runtime-Function-Error-Type", errType)
	w.note(who, "initerror-issued", "")
	rec := w.call("/runtime/init/error", "POST", h, payload)
	w.note(who, "initerror-returned", fmt.Sprint(rec.status))
	return rec
}

func (w *verifWorld) extRegister(who, name string, events []string) *verifRec {
	return w.extRegisterF(who, name, events, "")
}

// extRegisterF: registration with a Lambda-Extension-Accept-Feature header
func (w *verifWorld) extRegisterF(who, name string, events []string, features string) *verifRec {
	h := http.Header{}
	h.Set("Lambda-Extension-Name", name)
	if features != "" {
		h.Set("Lambda-Extension-Accept-Feature", features)
	}
	body, _ := json.Marshal(map[string][]string{"events": events})
	w.note(who, "register-issued", name)
	rec := w.call("/extension/register", "POST", h, body)
	w.note(who, "register-returned", fmt.Sprint(rec.status))
	if rec.status == 200 {
		w.extIDs = append(w.extIDs, rec.hdr.Get("Lambda-Extension-Identifier"))
	}
	return rec
}

func (w *verifWorld) extNext(who, identifier string) *verifRec {
	h := http.Header{}
	if identifier != "" {
		h.Set("Lambda-Extension-Identifier", identifier)
	}
	w.note(who, "next-issued", "")
	rec := w.call("/extension/event/next", "GET", h, nil)
	w.note(who, "next-returned", fmt.Sprint(rec.status))
	return rec
}

func (w *verifWorld) extInitError(who, identifier, errType string) *verifRec {
	h := http.Header{}
	h.Set("Lambda-Extension-Identifier", identifier)
	h.Set("Lambda-Extension-Function-Error-Type", errType)
	rec := w.call("/extension/init/error", "POST", h, []byte("{}"))
	w.note(who, "ext-initerror-returned", fmt.Sprint(rec.status))
	return rec
}

func (w *verifWorld) extExitError(who, identifier, errType string) *verifRec {
	h := http.Header{}
	h.Set("Lambda-Extension-Identifier", identifier)
	h.Set("Lambda-Extension-Function-Error-Type", errType)
	rec := w.call("/extension/exit/error", "POST", h, []byte("{}"))
	w.note(who, "ext-exiterror-returned", fmt.Sprint(rec.status))
	return rec
}

// ---------------------------------------------------------------------------
// platform side

type verifInitResult struct {
	done    bool
	success bool
	failure interop.InitFailure
}

// doInit runs the real HandleInit on its own (internal) thread, like rapidcore's sandbox does.
func (w *verifWorld) doInit() *verifInitResult {
	res := &verifInitResult{}
	succ := make(chan interop.InitSuccess, 1)
	fail := make(chan interop.InitFailure, 1)
	w.note("platform", "init-begin", "")
	verifSpawn(func() {
		w.ctx.HandleInit(w.initReq, succ, fail)
	})
	verifSpawn(func() {
		select {
		case s := <-succ:
			res.done, res.success = true, true
			w.note("platform", "init-success", "")
			s.Ack <- struct{}{}
		case f := <-fail:
			res.done, res.failure = true, f
			w.note("platform", "init-failure", string(f.ErrorType))
			f.Ack <- struct{}{}
		}
	})
	return res
}

type verifInvokeResult struct {
	done    bool
	failure *interop.InvokeFailure
}

func (w *verifWorld) newInvoke(id string, payload []byte) *interop.Invoke {
	return &interop.Invoke{
		ID:                 id,
		InvokedFunctionArn: "arn:aws:lambda:us-east-1:123456789012:function:fn",
		TraceID:            "Root=1-5bef4de7-ad49b0e87f6ef6c87fc2e700;Parent=9a9197af755a6419;Sampled=1",
		DeadlineNs:         "1000000000000",
		Payload:            bytes.NewReader(payload),
		ContentType:        "application/json",
	}
}

// doInvoke runs the real HandleInvoke to completion on the calling thread.
func (w *verifWorld) doInvoke(id string, payload []byte) *verifInvokeResult {
	res := &verifInvokeResult{}
	w.iop.begin(id)
	w.note("platform", "invoke-begin", id)
	_, f := w.ctx.HandleInvoke(w.newInvoke(id, payload), w.sbInfo, w.reqBuf, w.iop)
	res.done, res.failure = true, f
	if f == nil {
		w.note("platform", "invoke-success", id)
	} else {
		w.note("platform", "invoke-failure", id+"/"+string(f.ErrorType))
	}
	w.iop.end()
	return res
}

func (w *verifWorld) doReset(reason string, timeoutMs int64) {
	w.note("platform", "reset-begin", reason)
	w.ctx.HandleReset(&interop.Reset{Reason: reason, DeadlineNs: time.Now().UnixNano()/1 + timeoutMs*1000000})
	w.ctx.Clear()
	w.note("platform", "reset-end", reason)
}

var _ = model.AgentEvent{}

// ---------------------------------------------------------------------------
// exported surface for the FULL composition assembled in package rapidcore
// (real rapidcore.Server + real SandboxContext on top of this world)

type VerifWorld = verifWorld

// runtime behaviours per dispatched invocation
const (
	VbRespond           = iota // post the response, go back to next
	VbError                    // post an error, go back to next
	VbStall                    // receive the invocation and never answer
	VbExit                     // receive the invocation and exit (status 1) without answering
	VbRespondExit              // post the response, then exit instead of polling again
	VbStaleThenOK              // post a response for a stale id (must be refused), then the right one
	VbExitEarly                // exit before the first next
	VbInitError                // report init/error, then exit
	VbDoubleRespond            // post the response twice (second must be refused)
	VbCaseVariantThenOK        // post a response for the id in upper case (must be refused), then the right one
	VbIllegalThenOK            // make protocol-illegal calls (init/error after next, error for a stale id), then respond
	VbOversize                 // post a response longer than the limit (413), then go on polling
	VbNextTwice                // poll next a second time before responding (same invocation again), then respond
)

func VerifNewWorld(iop interop.Server, nExt int, subs []string) *VerifWorld {
	entries := []verifDirEntry{{name: "subdir", dir: true}}
	events := map[string][]string{}
	for i := 0; i < nExt; i++ {
		n := fmt.Sprintf("ext%d", i)
		entries = append(entries, verifDirEntry{name: n})
		switch subs[i] {
		case "I":
			events[n] = []string{"INVOKE"}
		case "S":
			events[n] = []string{"SHUTDOWN"}
		case "IS":
			events[n] = []string{"INVOKE", "SHUTDOWN"}
		default:
			events[n] = []string{}
		}
	}
	w := newVerifWorldWith(iop, entries, true, false)
	w.sup.extScript = w.healthyExt(events, 8)
	w.sup.runtimeScript = w.plannedRuntime()
	return w
}

func (w *verifWorld) RapidCtx() interop.RapidContext { return w.ctx }

// ShuttingDown reports whether a reset/shutdown of the sandbox is in progress (ghost read).
func (w *verifWorld) ShuttingDown() bool { return w.ctx.shutdownContext.shuttingDown }
func (w *verifWorld) StateGetter() interop.InternalStateGetter {
	return w.rs.GetInternalStateDescriptor(w.appCtx)
}
func (w *verifWorld) InitRequest() *interop.Init          { return w.initReq }
func (w *verifWorld) Count(who, what, arg string) int     { return w.count(who, what, arg) }
func (w *verifWorld) CountPrefix(who, what, p string) int { return w.countPrefix(who, what, p) }
func (w *verifWorld) First(who, what, arg string) int     { return w.first(who, what, arg) }
func (w *verifWorld) Seq() int                            { return w.seq }
func (w *verifWorld) Note(who, what, arg string) int      { return w.note(who, what, arg) }
func (w *verifWorld) RuntimeBodies() []string             { return w.rtBodies }
func (w *verifWorld) RuntimeResponses() []string          { return w.rtResponses }
func (w *verifWorld) Statuses() []string                  { return w.rtStatuses }
func (w *verifWorld) Deadlines() []string                 { return w.rtDeadlines }
func (w *verifWorld) SetSlowInit(b bool)                  { w.slowInit = b }
func (w *verifWorld) SetRuntimeIgnoresTerm(b bool)        { w.rtIgnoresTerm = b }
func (w *verifWorld) ExtIDs() []string                    { return w.extIDs }
func (w *verifWorld) SetExtReportsOnShutdown(b bool)      { w.extReportsOnShutdown = b }

// StaleExtNext / StaleExtExitError: requests carrying the identifier of an extension of an
// earlier generation (the process is gone; the request is "in the network")
func (w *verifWorld) StaleExtNext(id string) int {
	return w.extNext("stale-extension", id).status
}
func (w *verifWorld) StaleExtInitError(id string) int {
	return w.extInitError("stale-extension", id, "Extension.Stale").status
}
func (w *verifWorld) StaleExtExitError(id string) int {
	return w.extExitError("stale-extension", id, "Extension.Stale").status
}
func (w *verifWorld) SetAsyncExitEvents(b bool) { w.sup.asyncEvents = b }

// SetLateExitPhase: the exit notification of the first process that is SIGKILLed is delivered
// only when the next invocation has begun (1), has reached its runtime (2), or has ended (3).
func (w *verifWorld) SetLateExitPhase(phase int) { w.sup.latePhase = phase }

// LastSeq returns the sequence number of the last matching entry (0 = none).
func (w *verifWorld) LastSeq(who, what, argPrefix string) int {
	r := 0
	for _, e := range w.log {
		if (who == "" || e.who == who) && e.what == what && strings.HasPrefix(e.arg, argPrefix) {
			r = e.seq
		}
	}
	return r
}

// SetPlan: plan[k] lists the behaviours of the k-th started runtime process, one per invocation it receives.
func (w *verifWorld) SetPlan(plan [][]int) { w.rtPlan = plan }

// SetPlanNext: plan for the runtime processes started from now on
func (w *verifWorld) SetPlanNext(plan [][]int) {
	w.rtPlan = append(make([][]int, w.rtStarted), plan...)
}

func (w *verifWorld) plannedRuntime() func(p *verifProc) {
	pk := w.plannedRuntimeK()
	return func(p *verifProc) {
		k := w.rtStarted
		w.rtStarted++
		pk(p, k)
	}
}

func (w *verifWorld) plannedRuntimeK() func(p *verifProc, k int) {
	return func(p *verifProc, k int) {
		who := p.name
		p.ignoreTerm = w.rtIgnoresTerm
		var plan []int
		if k < len(w.rtPlan) {
			plan = w.rtPlan[k]
		}
		if len(plan) > 0 && plan[0] == VbExitEarly {
			w.sup.exit(p, 1, 0)
			return
		}
		if len(plan) > 0 && plan[0] == VbInitError {
			w.runtimeInitError(who, "Runtime.InitBoom", []byte(`{"errorMessage":"boom","errorType":"Runtime.InitBoom"}`))
			w.sup.exit(p, 1, 0)
			return
		}
		if w.slowInit && k == 0 {
			// the first runtime's own initialisation takes 50 ms of logical time, and it
			// takes them when everything else (including a caller that already arrived)
			// has gone as far as it can
			verifSettle()
			verifAdvanceClock(50 * 1000 * 1000)
		}
		for i := 0; i < 6; i++ {
			if p.dead {
				return
			}
			rec := w.runtimeNext(who)
			if p.dead || rec.status != 200 {
				return
			}
			id := rec.hdr.Get("Lambda-Runtime-Aws-Request-Id")
			w.note(who, "got-invoke", id)
			w.rtBodies = append(w.rtBodies, string(rec.body))
			w.rtArns = append(w.rtArns, rec.hdr.Get("Lambda-Runtime-Invoked-Function-Arn"))
			w.rtDeadlines = append(w.rtDeadlines, rec.hdr.Get("Lambda-Runtime-Deadline-Ms"))
			b := VbRespond
			if i < len(plan) {
				b = plan[i]
			}
			resp := verifNondetPayload("runtime payload")
			if b == VbOversize {
				verifAssume(len(resp) > 6*1024*1024+100)
			} else {
				verifAssume(len(resp) <= 6*1024*1024+100)
			}
			w.rtResponses = append(w.rtResponses, string(resp))
			st := func(r *verifRec) int { w.rtStatuses = append(w.rtStatuses, fmt.Sprint(r.status)); return r.status }
			switch b {
			case VbRespond:
				if st(w.runtimeResponse(who, id, resp)) != 202 {
					return // a runtime whose response is refused gives up
				}
			case VbError:
				if st(w.runtimeError(who, id, "Function.Oops", resp)) != 202 {
					return
				}
			case VbStall:
				verifBlockForever()
				return
			case VbExit:
				w.sup.exit(p, 1, 0)
				return
			case VbRespondExit:
				st(w.runtimeResponse(who, id, resp))
				w.sup.exit(p, 1, 0)
				return
			case VbStaleThenOK:
				st(w.runtimeResponse(who, "stale-"+id, []byte("stale-payload")))
				st(w.runtimeResponse(who, id, resp))
			case VbDoubleRespond:
				st(w.runtimeResponse(who, id, resp))
				st(w.runtimeResponse(who, id, []byte("second-payload")))
			case VbOversize:
				st(w.runtimeResponse(who, id, resp))
			case VbNextTwice:
				rec2 := w.runtimeNext(who)
				w.rtBodies = append(w.rtBodies, string(rec2.body))
				w.rtResponses = append(w.rtResponses, string(resp))
				if rec2.status != 200 || rec2.hdr.Get("Lambda-Runtime-Aws-Request-Id") != id {
					w.note(who, "second-next-differs", "")
				}
				if st(w.runtimeResponse(who, id, resp)) != 202 {
					return
				}
			case VbCaseVariantThenOK:
				st(w.runtimeResponse(who, strings.ToUpper(id), []byte("variant-payload")))
				st(w.runtimeResponse(who, id, resp))
			case VbIllegalThenOK:
				st(w.runtimeInitError(who, "Runtime.Late", []byte(`{"errorMessage":"late"}`)))
				st(w.runtimeError(who, "stale-"+id, "Function.Stale", []byte("stale-error")))
				st(w.runtimeResponse(who, id, resp))
			}
		}
	}
}

// ---------------------------------------------------------------------------
// C15: grammar and truthfulness of the platform lifecycle events recorded so far

// CheckInitBarrier: in EVERY generation (also after resets) the runtime process is started only
// after every external extension launched in that generation has registered (C03 over histories).
func (w *verifWorld) CheckInitBarrier() {
	for _, e := range w.log {
		if e.who != "supervisor" || e.what != "exec" || !strings.HasPrefix(e.arg, "runtime-") {
			continue
		}
		gen := e.arg[len("runtime-"):strings.Index(e.arg, "|")]
		for _, x := range w.log {
			if x.who != "supervisor" || x.what != "exec" || !strings.HasPrefix(x.arg, "extension-") {
				continue
			}
			name := x.arg[:strings.Index(x.arg, "|")]
			if !strings.HasSuffix(name, "-"+gen) {
				continue
			}
			reg := w.first(name, "register-returned", "200")
			verifAssert(reg > 0 && reg < e.seq, "in every generation the runtime is started only after every launched external extension has registered")
		}
	}
}

func (w *verifWorld) CheckEventGrammar() {
	w.CheckInitBarrier()
	inInit := false
	initPhase := ""
	nRtDone := 0
	initStartSeq := 0
	curInvoke := ""
	invokeStartSeq := 0
	nInvRtDone := 0
	startsPerID := map[string]int{}
	for _, e := range w.log {
		if e.who != "platform" {
			continue
		}
		switch e.what {
		case "initStart":
			verifAssert(!inInit, "init-start is not emitted inside an unfinished initialisation")
			inInit, initPhase, nRtDone, initStartSeq = true, e.arg, 0, e.seq
		case "extensionInit":
			verifAssert(inInit, "extension status lines belong to an initialisation")
		case "initRuntimeDone":
			verifAssert(inInit, "init-runtime-done belongs to an initialisation")
			nRtDone++
			verifAssert(nRtDone <= 1, "at most one init-runtime-done per initialisation")
			parts := strings.SplitN(e.arg, "/", 3)
			verifAssert(parts[0] == initPhase, "init-runtime-done carries the phase of its init-start")
			// truthfulness: success only if the runtime of this initialisation reached its next poll
			reached := false
			for _, x := range w.log {
				if x.seq > initStartSeq && x.seq < e.seq && strings.HasPrefix(x.who, "runtime-") && (x.what == "next-issued" || x.what == "restorenext-issued") {
					reached = true
				}
			}
			if parts[1] == "success" {
				verifAssert(reached, "init-runtime-done reports success only if the runtime reached its next poll")
			} else {
				verifAssert(parts[2] != "", "an error status carries the type of the first fault")
			}
			if !reached {
				verifAssert(parts[1] != "success", "init-runtime-done does not report success when the runtime never reached its next poll")
			}
		case "initReport":
			verifAssert(inInit, "init-report closes an initialisation")
			verifAssert(e.arg == initPhase, "init-report carries the phase of its init-start")
			inInit = false
		case "invoke-begin":
			// (emitted by the harness when HandleInvoke is entered directly)
		case "invokeStart":
			startsPerID[e.arg]++
			verifAssert(startsPerID[e.arg] == 1, "exactly one invoke-start per dispatched invocation")
			curInvoke, invokeStartSeq, nInvRtDone = e.arg, e.seq, 0
		case "invokeRuntimeDoneID":
			verifAssert(e.arg == curInvoke, "invoke-runtime-done carries the request id of the invocation it follows")
		case "invokeRuntimeDone":
			verifAssert(curInvoke != "", "invoke-runtime-done follows an invoke-start")
			nInvRtDone++
			verifAssert(nInvRtDone <= 1, "at most one invoke-runtime-done per invocation")
			parts := strings.SplitN(e.arg, "/", 2)
			if parts[0] == "success" {
				responded, polled := 0, false
				for _, x := range w.log {
					if x.seq > invokeStartSeq && x.seq < e.seq && strings.HasPrefix(x.who, "runtime-") {
						if (x.what == "response-returned" || x.what == "error-returned") && x.arg == "202" {
							responded = x.seq
						}
						if x.what == "next-issued" && responded > 0 && x.seq > responded {
							polled = true
						}
					}
				}
				verifAssert(responded > 0 && polled, "invoke-runtime-done reports success only if the runtime posted its response and returned to next")
			}
		}
	}
	verifAssert(!inInit, "every initialisation ends with exactly one init-report")
}

// DispatchedWithoutStart: every invocation handed to HandleInvoke got exactly one invoke-start.
func (w *verifWorld) CheckInvokeStarts(ids []string) {
	for _, id := range ids {
		verifAssert(w.count("platform", "invokeStart", id) == 1, "each dispatched invocation emits exactly one invoke-start")
	}
}

// ---------------------------------------------------------------------------
// exported Runtime API client for scripted runtimes assembled in package rapidcore

type VerifRuntimeAPI struct {
	w *verifWorld
	p *verifProc
}

func (a *VerifRuntimeAPI) Dead() bool        { return a.p.dead }
func (a *VerifRuntimeAPI) Name() string      { return a.p.name }
func (a *VerifRuntimeAPI) Exit(status int32) { a.w.sup.exit(a.p, status, 0) }

// ExitWith: the process ends with the exit status or, if signo != 0, killed by that signal
func (a *VerifRuntimeAPI) ExitWith(status, signo int32) { a.w.sup.exit(a.p, status, signo) }
func (a *VerifRuntimeAPI) Next() (int, string, string) {
	r := a.w.runtimeNext(a.p.name)
	return r.status, r.hdr.Get("Lambda-Runtime-Aws-Request-Id"), string(r.body)
}
func (a *VerifRuntimeAPI) Response(id string, payload []byte) (int, string) {
	r := a.w.runtimeResponse(a.p.name, id, payload)
	return r.status, string(r.body)
}
func (a *VerifRuntimeAPI) Error(id, errType string, payload []byte) (int, string) {
	r := a.w.runtimeError(a.p.name, id, errType, payload)
	return r.status, string(r.body)
}
func (a *VerifRuntimeAPI) InitError(errType string, payload []byte) (int, string) {
	r := a.w.runtimeInitError(a.p.name, errType, payload)
	return r.status, string(r.body)
}

// Raw sends an arbitrary request to the Runtime API router (unknown routes, wrong methods)
func (a *VerifRuntimeAPI) Raw(method, path string) int {
	r := a.w.call(path, method, nil, nil)
	a.w.note(a.p.name, "raw-returned", fmt.Sprint(r.status))
	return r.status
}
func (a *VerifRuntimeAPI) RestoreNext() int {
	a.w.note(a.p.name, "restorenext-issued", "")
	r := a.w.call("/runtime/restore/next", "GET", nil, nil)
	a.w.note(a.p.name, "restorenext-returned", fmt.Sprint(r.status))
	return r.status
}
func (a *VerifRuntimeAPI) RestoreError(errType string) (int, string) {
	h := http.Header{}
	h.Set("Lambda-Runtime-Function-Error-Type", errType)
	r := a.w.call("/runtime/restore/error", "POST", h, []byte("{}"))
	a.w.note(a.p.name, "restoreerror-returned", fmt.Sprint(r.status))
	return r.status, string(r.body)
}

// SetRuntimeScript: script(k, api) is run as the k-th started runtime process; returning false
// falls back to the planned behaviours.
func (w *verifWorld) SetRuntimeScript(script func(k int, api *VerifRuntimeAPI) bool) {
	planned := w.plannedRuntimeK()
	w.sup.runtimeScript = func(p *verifProc) {
		// the index is taken when the process starts (a script that is still parked when
		// the next generation starts must not be run a second time)
		k := w.rtStarted
		w.rtStarted++
		if script(k, &VerifRuntimeAPI{w: w, p: p}) {
			return
		}
		planned(p, k)
	}
}

// exported Extensions API client for scripted extensions
type VerifExtAPI struct {
	w   *verifWorld
	who string
	p   *verifProc
}

func (a *VerifExtAPI) Dead() bool { return a.p != nil && a.p.dead }
func (a *VerifExtAPI) Exit(status int32) {
	if a.p != nil {
		a.w.sup.exit(a.p, status, 0)
	}
}
func (a *VerifExtAPI) ExitWith(status, signo int32) {
	if a.p != nil {
		a.w.sup.exit(a.p, status, signo)
	}
}
func (a *VerifExtAPI) Register(name string, events []string) (int, string, string) {
	r := a.w.extRegister(a.who, name, events)
	return r.status, r.hdr.Get("Lambda-Extension-Identifier"), string(r.body)
}
func (a *VerifExtAPI) RegisterWithFeatures(name string, events []string, features string) (int, string, string) {
	r := a.w.extRegisterF(a.who, name, events, features)
	return r.status, r.hdr.Get("Lambda-Extension-Identifier"), string(r.body)
}
func (a *VerifExtAPI) Next(identifier string) (int, string) {
	r := a.w.extNext(a.who, identifier)
	return r.status, string(r.body)
}
func (a *VerifExtAPI) InitError(identifier, errType string) (int, string) {
	r := a.w.extInitError(a.who, identifier, errType)
	return r.status, string(r.body)
}
func (a *VerifExtAPI) ExitError(identifier, errType string) (int, string) {
	r := a.w.extExitError(a.who, identifier, errType)
	return r.status, string(r.body)
}

// SetExtScript: script(base, api) runs as every started external extension process of the first
// generation; later generations run the healthy script.
func (w *verifWorld) SetExtScript(script func(base string, api *VerifExtAPI)) {
	healthy := w.sup.extScript
	w.sup.extScript = func(p *verifProc, base string) {
		if strings.HasSuffix(p.name, "-1") {
			script(base, &VerifExtAPI{w: w, who: p.name, p: p})
			return
		}
		healthy(p, base)
	}
}

// InternalExtAPI: an API client for an extension living inside the given runtime process.
func (a *VerifRuntimeAPI) InternalExtAPI(name string) *VerifExtAPI {
	return &VerifExtAPI{w: a.w, who: "internal:" + name, p: a.p}
}

// ---------------------------------------------------------------------------
// C08 support: leftover state and normalised projections of the ghost log

// Leftover renders the orchestrator's per-generation state (what a reset is supposed to wipe).
func (w *verifWorld) Leftover() string {
	c := w.ctx
	_, ffe := appctx.LoadFirstFatalError(c.appCtx)
	out := core.VerifLeftover(c.registrationService, c.initFlow, c.invokeFlow)
	out += fmt.Sprintf(" firstFatalError=%v runtimeRelease=%q errorTrace=%v initDone=%v shuttingDown=%v",
		ffe, appctx.GetRuntimeRelease(c.appCtx), appctx.LoadInvokeErrorTraceData(c.appCtx) != nil, c.initDone,
		c.shutdownContext.shuttingDown) // (agentsAwaitingExit is keyed by per-generation process names: not compared)
	return out
}

func verifStripGen(s string) string {
	if !strings.HasPrefix(s, "runtime-") && !strings.HasPrefix(s, "extension-") {
		return s
	}
	i := len(s)
	for i > 0 && s[i-1] >= '0' && s[i-1] <= '9' {
		i--
	}
	if i > 0 && i < len(s) && s[i-1] == '-' {
		return s[:i-1]
	}
	return s
}

// Projection returns, for the log entries with seq >= from, the entries of one observer with
// process generation numbers removed and request ids replaced by their order of appearance.
// key: "caller", "platform", "runtime", "extension-ext0", "supervisor/runtime", ...
func (w *verifWorld) Projection(from int, key string) []string {
	var ids []string
	normID := func(s string) string {
		if !strings.HasPrefix(s, "abcd0000-") {
			return s
		}
		for i, x := range ids {
			if x == s {
				return fmt.Sprintf("id#%d", i)
			}
		}
		ids = append(ids, s)
		return fmt.Sprintf("id#%d", len(ids)-1)
	}
	var out []string
	for _, e := range w.log {
		if e.seq < from {
			continue
		}
		who := verifStripGen(e.who)
		parts := strings.Split(e.arg, "|")
		for i := range parts {
			parts[i] = normID(verifStripGen(parts[i]))
		}
		arg := strings.Join(parts, "|")
		k := who
		if who == "supervisor" {
			k = "supervisor/" + parts[0]
		}
		if k == key {
			out = append(out, e.what+"("+arg+")")
		}
	}
	return out
}

// TimesSince renders "what@ms" for the log entries from seq on (debug aid)
func (w *verifWorld) TimesSince(from int) string {
	out := ""
	for _, e := range w.log {
		if e.seq >= from {
			out += fmt.Sprintf("%s.%s@%d ", e.who, e.what, (w.times[e.seq]-1700000000000000000)/1000)
		}
	}
	return out
}
