//go:build verif

package rapid

import (
	"net/http"
	"strings"
	"time"

	"go.amzn.com/lambda/interop"
	"go.amzn.com/lambda/rapi"
	"go.amzn.com/lambda/rapi/handler"
)

// runtime behaviours around a snapshot restore
const (
	vsHookOK        = iota // restore/next, (released), runs hook, next
	vsRestoreError         // restore/next, (released), restore/error(type)
	vsLegacyError          // restore/next, (released), init/error(type)  (legacy reporting path)
	vsHookStalls           // restore/next, (released), never returns
	vsNoRestorePoll        // never polls restore/next: goes straight to next
	vsExits                // restore/next, (released), exits
)

// C18: snapshot mode. Init completes when the runtime parks on its restore poll (or on next);
// a restore request then succeeds only after the hook ran and the runtime asked for next, fails
// with the timeout error if it does neither, with the runtime's sanitised error type if it reports
// one, returns at once (without releasing anyone) if the runtime never polled restore; credentials
// are served only for the per-instance token and reflect the most recent restore.
func VerifC18Restore() {
	w := newVerifWorld(nil, true, true)
	w.ctx.server = &rapi.Server{}
	w.initReq.AwsKey, w.initReq.AwsSecret, w.initReq.AwsSession = "key0", "secret0", "session0"
	beh := []int{vsHookOK, vsRestoreError, vsLegacyError, vsHookStalls, vsNoRestorePoll, vsExits}[verifChoice(6, "runtime restore behaviour")]
	errType := verifNondetHeader("reported error type")
	released := false
	w.sup.runtimeScript = func(p *verifProc) {
		api := &VerifRuntimeAPI{w: w, p: p}
		if beh == vsNoRestorePoll {
			api.Next()
			return
		}
		st := api.RestoreNext()
		if st != 200 || p.dead {
			return
		}
		released = true
		switch beh {
		case vsHookOK:
			api.Next()
		case vsRestoreError:
			st, _ := api.RestoreError(errType)
			verifAssert(st == 202, "restore/error is accepted while restoring")
		case vsLegacyError:
			st, _ := api.InitError(errType, []byte("{}"))
			verifAssert(st == 202, "init/error is accepted as a restore error while restoring")
		case vsHookStalls:
			verifBlockForever()
		case vsExits:
			w.sup.exit(p, 1, 0)
		}
	}
	ir := w.doInit()
	verifWaitAll()
	verifSettle()
	verifAssert(ir.done && ir.success, "snapshot-mode init completes once the runtime is parked")

	// the runtime's environment carries the credentials URI and token, not the keys
	renv := w.sup.procs["runtime-1"].env
	token := renv["AWS_CONTAINER_AUTHORIZATION_TOKEN"]
	verifAssert(token != "" && renv["AWS_CONTAINER_CREDENTIALS_FULL_URI"] != "", "the runtime is given the credentials URI and the per-instance token")
	_, hasKey := renv["AWS_ACCESS_KEY_ID"]
	_, hasSecret := renv["AWS_SECRET_ACCESS_KEY"]
	_, hasSession := renv["AWS_SESSION_TOKEN"]
	verifAssert(!hasKey && !hasSecret && !hasSession, "the temporary credentials themselves are not placed in the runtime's environment")

	creds := func(tok string) *verifRec {
		h := http.Header{}
		h.Set("Authorization", tok)
		return w.callDirect(handler.NewCredentialsHandler(w.ctx.credentialsService), "GET", h)
	}
	c0 := creds(token)
	verifAssert(c0.status == 200 && strings.Contains(string(c0.body), `"AccessKeyId":"key0"`) && strings.Contains(string(c0.body), `"Token":"session0"`), "credentials are served for the per-instance token")
	other := verifNondetHeader("presented token")
	verifAssume(other != token)
	verifAssert(creds(other).status == 404, "any other token is refused with 404")

	nextsBefore := w.count("runtime-1", "next-returned", "200")
	res, err := w.ctx.HandleRestore(&interop.Restore{AwsKey: "key1", AwsSecret: "secret1", AwsSession: "session1", CredentialsExpiry: time.Unix(2000000000, 0), RestoreHookTimeoutMs: 1000})
	_ = res
	verifSettle()
	switch beh {
	case vsHookOK:
		verifReach("hook-ok")
		verifAssert(err == nil, "restore succeeds once the hook ran and the runtime asked for next")
		verifAssert(released && w.count("runtime-1", "next-issued", "") == 1, "success only after the runtime was released and polled next")
	case vsRestoreError, vsLegacyError:
		verifReach("hook-error")
		ue, ok := err.(interop.ErrRestoreHookUserError)
		verifAssert(ok, "a reported hook error fails the restore with the user error")
		if ok {
			exact := verifFullMatch(`(Runtime|Function)\.[A-Z][a-zA-Z]+`, errType)
			if exact {
				verifAssert(string(ue.UserError.Type) == errType, "a well-formed error type is passed on")
			} else {
				verifAssert(string(ue.UserError.Type) == "Runtime.Unknown" || string(ue.UserError.Type) == "Function.Unknown", "a malformed error type is sanitised")
			}
		}
	case vsHookStalls:
		verifReach("hook-timeout")
		verifAssert(err == interop.ErrRestoreHookTimeout, "a hook that never returns fails the restore with the timeout error")
	case vsNoRestorePoll:
		verifReach("no-restore-poll")
		verifAssert(err == nil, "restore returns at once if the runtime never entered the restore poll")
		verifAssert(w.count("runtime-1", "next-returned", "200") == nextsBefore, "a runtime parked in next is not released by a restore")
	case vsExits:
		verifReach("exit")
		verifAssert(err != nil && strings.Contains(err.Error(), "Runtime.ExitError"), "a runtime exit during the hook fails the restore with Runtime.ExitError")
	}
	// credentials reflect the most recent restore
	c1 := creds(token)
	verifAssert(c1.status == 200 && strings.Contains(string(c1.body), `"AccessKeyId":"key1"`) && strings.Contains(string(c1.body), `"Token":"session1"`), "credentials reflect the most recent restore")
}
