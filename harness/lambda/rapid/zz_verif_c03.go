//go:build verif

package rapid

import (
	"fmt"
	"strings"
)

// hold: the party `who` is held back before a call of the given phase: everybody else runs as far
// as it can, the harness's onHold check is evaluated, then the party goes on.
func (w *verifWorld) hold(who, phase string) {
	if w.holdWho == "" || !strings.HasPrefix(who, w.holdWho) || w.holding {
		return
	}
	w.holding = true
	w.heldSince = w.count("platform", "invoke-returned", "")
	verifSettle()
	w.note(who, "held-until-quiescence", phase)
	if w.onHold != nil {
		w.onHold(who, phase)
	}
	w.holding = false
}

// scripted healthy runtime: next, (respond, next)*
func (w *verifWorld) healthyRuntime(nInvokes int, payload string, nInternal int) func(p *verifProc) {
	return func(p *verifProc) {
		who := p.name
		// internal extensions live inside the runtime process: register, then poll for events
		for j := 0; j < nInternal; j++ {
			name := fmt.Sprintf("internal%d", j)
			verifSpawnEnv(func() {
				iwho := "internal:" + name
				if verifLateInternal {
					verifWaitUntil(func() bool { return w.first(who, "next-issued", "") > 0 || p.dead })
					verifReach("late-internal")
				}
				rec := w.extRegister(iwho, name, []string{"INVOKE"})
				if rec.status != 200 {
					return
				}
				id := rec.hdr.Get("Lambda-Extension-Identifier")
				for i := 0; i <= nInvokes; i++ {
					if p.dead {
						return
					}
					if i == 0 {
						w.hold(iwho, "init")
					} else {
						w.hold(iwho, "invoke")
					}
					r := w.extNext(iwho, id)
					if r.status != 200 {
						return
					}
					w.note(iwho, "got-event", "INVOKE")
				}
			})
		}
		if verifHoldBack && nInternal > 0 {
			// the internal extensions register before the runtime asks for its first invocation
			verifWaitUntil(func() bool { return w.countWhat("register-returned")-w.countExtRegistered() >= nInternal || p.dead })
		}
		for i := 0; i <= nInvokes; i++ {
			if p.dead {
				return
			}
			if i == 0 {
				w.hold(who, "init")
			} else {
				w.hold(who, "invoke")
			}
			rec := w.runtimeNext(who)
			if p.dead || rec.status != 200 {
				return
			}
			id := rec.hdr.Get("Lambda-Runtime-Aws-Request-Id")
			w.note(who, "got-invoke", id)
			w.rtBodies = append(w.rtBodies, string(rec.body))
			w.rtArns = append(w.rtArns, rec.hdr.Get("Lambda-Runtime-Invoked-Function-Arn"))
			resp := verifNondetPayload("response payload")
			verifAssume(len(resp) <= 6*1024*1024+100)
			w.rtResponses = append(w.rtResponses, string(resp))
			r2 := w.runtimeResponse(who, id, resp)
			if r2.status != 202 {
				return
			}
		}
	}
}

// scripted healthy extension: register(events), next*
func (w *verifWorld) healthyExt(events map[string][]string, nNext int) func(p *verifProc, base string) {
	return func(p *verifProc, base string) {
		who := p.name
		w.hold(who, "register")
		rec := w.extRegister(who, base, events[base])
		if rec.status != 200 {
			return
		}
		id := rec.hdr.Get("Lambda-Extension-Identifier")
		for i := 0; i < nNext; i++ {
			if p.dead {
				return
			}
			if i == 0 {
				w.hold(who, "init")
			} else {
				w.hold(who, "invoke")
			}
			r := w.extNext(who, id)
			if r.status != 200 || p.dead {
				return
			}
			// the body contains the (symbolic) deadline, so fields are checked textually
			b := string(r.body)
			kind := "OTHER"
			if strings.Contains(b, `"eventType":"INVOKE"`) {
				kind = "INVOKE"
			} else if strings.Contains(b, `"eventType":"SHUTDOWN"`) {
				kind = "SHUTDOWN"
			}
			w.note(who, "got-event", kind)
			w.lastBody[who] = b
			w.bodies[who] = append(w.bodies[who], b)
			if kind == "SHUTDOWN" && w.extReportsOnShutdown && strings.HasSuffix(who, "-1") {
				// a first-generation extension that answers SHUTDOWN with an exit/error report
				// and then exits (the report is recorded while the shutdown is running)
				w.extExitError(who, id, "Extension.Bye")
				w.sup.exit(p, 1, 0)
				return
			}
		}
	}
}

// C03 + C04 (healthy parties, all schedules within the delay bound): nExt external
// extensions (plus one directory entry that must not be launched), each subscribed
// per `subs`; init, then nInv invocations.
func verifInitInvoke(nExt int, subs []string, nInv int, nInt int) {
	entries := []verifDirEntry{{name: "subdir", dir: true}}
	events := map[string][]string{}
	for i := 0; i < nExt; i++ {
		n := fmt.Sprintf("ext%d", i)
		entries = append(entries, verifDirEntry{name: n})
		switch subs[i] {
		case "I":
			events[n] = []string{"INVOKE"}
		case "S":
			events[n] = []string{"SHUTDOWN"}
		case "IS":
			events[n] = []string{"INVOKE", "SHUTDOWN"}
		default:
			events[n] = []string{}
		}
	}
	w := newVerifWorld(entries, true, false)
	w.sup.runtimeScript = w.healthyRuntime(nInv, "resp-", nInt)
	w.sup.extScript = w.healthyExt(events, nInv+1)

	// any one party may be held back arbitrarily long (until nothing else can happen)
	var ir *verifInitResult
	invokesDone := 0
	_ = invokesDone
	if verifHoldBack {
		parties := []string{"", "runtime-"}
		for i := 0; i < nExt; i++ {
			parties = append(parties, fmt.Sprintf("extension-ext%d-", i))
		}
		for j := 0; j < nInt; j++ {
			parties = append(parties, fmt.Sprintf("internal:internal%d", j))
		}
		w.holdWho = parties[verifChoice(len(parties), "party held back")]
		w.onHold = func(who, phase string) {
			verifReach("held-" + phase)
			verifReach("held-" + phase + "-" + who)
			switch phase {
			case "register":
				verifAssert(w.countPrefix("supervisor", "exec", "runtime-") == 0, "the runtime is not started while an external extension has not registered")
			case "init":
				verifAssert(ir == nil || !ir.done, "initialisation does not complete while a party has not asked for next")
				verifAssert(w.count("", "next-returned", "200") == 0, "nobody is served while a party has not asked for next")
			case "invoke":
				sub := strings.HasPrefix(who, "runtime-") || strings.HasPrefix(who, "internal:")
				for n, ev := range events {
					if strings.HasPrefix(who, "extension-"+n+"-") && len(ev) > 0 && ev[0] == "INVOKE" {
						sub = true
					}
				}
				if sub {
					verifAssert(w.count("platform", "invoke-returned", "") == w.heldSince, "an invocation is not complete while the runtime or an INVOKE subscriber has not asked for next")
				}
			}
		}
	}

	ir = w.doInit()
	verifWaitAll()
	verifAssert(ir.done && ir.success, "if all parties arrive, initialisation completes")

	// (a) exec set: every non-directory entry exactly once, named by its base name; never the directory
	for i := 0; i < nExt; i++ {
		n := fmt.Sprintf("ext%d", i)
		verifAssert(w.count("supervisor", "exec", "extension-"+n+"-1|/opt/extensions/"+n) == 1, "each extension file is launched exactly once under its base name")
	}
	verifAssert(w.countPrefix("supervisor", "exec", "extension-subdir") == 0, "a directory entry is not launched")
	verifAssert(w.countPrefix("supervisor", "exec", "") == nExt+1, "nothing else is launched")
	// (b) runtime started only after every external extension registered
	rtExec := w.first("supervisor", "exec", "runtime-1|/var/runtime/bootstrap")
	verifAssert(rtExec > 0, "runtime is started")
	for i := 0; i < nExt; i++ {
		reg := w.first(fmt.Sprintf("extension-ext%d-1", i), "register-returned", "200")
		verifAssert(reg > 0 && reg < rtExec, "runtime is not started until every external extension has registered")
	}
	// nobody has been served an event before the first invocation arrives
	verifAssert(w.count("", "next-returned", "200") == 0, "no event is delivered before an invocation arrives")
	// every party whose registration was accepted has asked for its next event before init completes
	for _, e := range w.log {
		if e.what == "register-returned" && e.arg == "200" {
			verifAssert(w.first(e.who, "next-issued", "") > 0, "initialisation does not complete before every accepted extension asked for next")
		}
	}
	initEnd := w.seq

	for k := 1; k <= nInv; k++ {
		id := fmt.Sprintf("req-%d", k)
		before := w.seq
		ev := verifNondetPayload("event payload")
		verifAssume(len(ev) <= 6*1024*1024+100)
		res := w.doInvoke(id, ev)
		w.note("platform", "invoke-returned", "")
		invokesDone++
		verifAssert(res.failure == nil, "healthy invocation succeeds")
		rtGot := 0
		for _, e := range w.log {
			if e.what == "got-invoke" && e.arg == id {
				rtGot = e.seq
			}
		}
		verifAssert(rtGot > before, "runtime receives the invocation after it arrived")
		verifAssert(len(w.rtBodies) == k && w.rtBodies[k-1] == string(ev), "runtime receives the event body byte for byte")
		verifAssert(w.rtArns[k-1] == "arn:aws:lambda:us-east-1:123456789012:function:fn", "runtime receives the function ARN")
		// a registration accepted must not come after the first delivery
		firstServed := w.first("", "next-returned", "200")
		for _, e := range w.log {
			if e.what == "register-returned" && e.arg == "200" {
				verifAssert(e.seq < firstServed, "registration is refused once the first invocation has been delivered")
			}
		}
		for i := 0; i < nExt; i++ {
			who := fmt.Sprintf("extension-ext%d-1", i)
			n := 0
			for _, e := range w.log {
				if e.who == who && e.what == "got-event" && e.arg == "INVOKE" && e.seq > before {
					n++
				}
			}
			if strings.Contains(subs[i], "I") {
				verifAssert(n == 1, "each INVOKE-subscribed extension receives exactly one INVOKE event per invocation")
				b := w.bodies[who][len(w.bodies[who])-1]
				verifAssert(strings.Contains(b, `"requestId":"`+id+`"`), "INVOKE event carries the runtime's request id")
				verifAssert(strings.Contains(b, `"invokedFunctionArn":"arn:aws:lambda:us-east-1:123456789012:function:fn"`), "INVOKE event carries the function ARN")
				verifAssert(strings.Contains(b, `"value":"Root=1-5bef4de7-ad49b0e87f6ef6c87fc2e700;Parent=9a9197af755a6419;Sampled=1"`), "INVOKE event carries the caller's trace header value")
				verifAssert(len(w.bodies[who]) == k, "events reach each extension in invocation order, one per invocation")
			} else {
				verifAssert(n == 0, "an extension not subscribed to INVOKE receives none")
			}
		}
		// completion only after runtime responded and returned to next, and subscribers returned to next
		end := w.first("platform", "invoke-success", id)
		resp := 0
		nextAfter := 0
		for _, e := range w.log {
			if e.who == "runtime-1" && e.what == "response-returned" && e.seq > before && resp == 0 {
				resp = e.seq
			}
			if e.who == "runtime-1" && e.what == "next-issued" && e.seq > before && resp > 0 && e.seq > resp && nextAfter == 0 {
				nextAfter = e.seq
			}
		}
		verifAssert(resp > 0 && resp < end, "invocation is not complete before the runtime posted its response")
		verifAssert(nextAfter > 0 && nextAfter < end, "invocation is not complete before the runtime asked for next")
		for i := 0; i < nExt; i++ {
			if !strings.Contains(subs[i], "I") {
				continue
			}
			who := fmt.Sprintf("extension-ext%d-1", i)
			got, nx := 0, 0
			for _, e := range w.log {
				if e.who == who && e.what == "got-event" && e.arg == "INVOKE" && e.seq > before {
					got = e.seq
				}
				if e.who == who && e.what == "next-issued" && got > 0 && e.seq > got && nx == 0 {
					nx = e.seq
				}
			}
			verifAssert(nx > 0 && nx < end, "invocation is not complete before every INVOKE-subscribed extension asked for next")
		}
		verifAssert(len(w.iop.responses) == k && w.iop.responses[k-1] == id+":"+w.rtResponses[k-1], "the runtime's response body reaches the platform unchanged for this invocation")
	}
	_ = initEnd
	w.CheckEventGrammar()
	if verifHoldBack {
		// a party that is still held back gets its turn (and its check) before the harness ends
		verifWaitUntil(func() bool { return !w.holding })
	}
	verifReach("done")
}

var verifHoldBack bool

// held-back variants: any one party is held back until nothing else can happen
func VerifC03Held2IS()  { verifHoldBack = true; verifInitInvoke(2, []string{"I", "S"}, 1, 0) }
func VerifC03Held1I1()  { verifHoldBack = true; verifInitInvoke(1, []string{"I"}, 1, 1) }
func VerifC04Held2_2()  { verifHoldBack = true; verifInitInvoke(2, []string{"I", ""}, 2, 0) }
func VerifC04Held2_I1() { verifHoldBack = true; verifInitInvoke(1, []string{"I"}, 2, 1) }

// only an INTERNAL extension subscribes to INVOKE (none, or a SHUTDOWN-only external one)
func VerifC04Held0_I1()  { verifHoldBack = true; verifInitInvoke(0, nil, 2, 1) }
func VerifC04Held1S_I1() { verifHoldBack = true; verifInitInvoke(1, []string{"S"}, 2, 1) }

// an internal extension that registers LATE: only when the runtime has issued its first next
// (the window in which registration is being closed): accepted => awaited, else refused
func VerifC03LateInternal() { verifLateInternal = true; verifInitInvoke(1, []string{"I"}, 1, 1) }

var verifLateInternal bool

func VerifC03Init0()      { verifInitInvoke(0, nil, 1, 0) }
func VerifC03Init1I()     { verifInitInvoke(1, []string{"I"}, 1, 0) }
func VerifC03Init1N()     { verifInitInvoke(1, []string{""}, 1, 0) }
func VerifC03Init2IS()    { verifInitInvoke(2, []string{"I", "S"}, 1, 0) }
func VerifC03Init1I1()    { verifInitInvoke(1, []string{"I"}, 1, 1) }
func VerifC03Init0I1()    { verifInitInvoke(0, nil, 1, 1) }
func VerifC03Init3()      { verifInitInvoke(3, []string{"I", "S", ""}, 1, 0) }
func VerifC04Invoke2_1()  { verifInitInvoke(1, []string{"IS"}, 2, 0) }
func VerifC04Invoke2_2()  { verifInitInvoke(2, []string{"I", ""}, 2, 0) }
func VerifC04Invoke3_1()  { verifInitInvoke(1, []string{"I"}, 3, 0) }
func VerifC04Invoke2_I1() { verifInitInvoke(1, []string{"I"}, 2, 1) }

// registrations answered to external extension processes
func (w *verifWorld) countExtRegistered() int {
	n := 0
	for _, e := range w.log {
		if e.what == "register-returned" && strings.HasPrefix(e.who, "extension-") {
			n++
		}
	}
	return n
}
