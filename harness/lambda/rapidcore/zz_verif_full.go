//go:build verif

package rapidcore

import (
	"bytes"
	"fmt"
	"strconv"
	"strings"
	"time"

	"go.amzn.com/lambda/interop"
	"go.amzn.com/lambda/rapid"
)

// FULL composition: the real rapidcore.Server and SandboxContext on top of the
// real rapid orchestration, registration service, flows, rendering and the real
// Runtime/Extensions API handlers; scripted runtime/extension processes behind
// a fake supervisor (package rapid's harness world).

type verifFullStack struct {
	s *Server
	w *rapid.VerifWorld
}

func newVerifFull(nExt int, subs []string, plan [][]int, timeoutMs int64) *verifFullStack {
	s := NewServer()
	w := rapid.VerifNewWorld(s, nExt, subs)
	w.SetPlan(plan)
	sb := &SandboxContext{rapidCtx: w.RapidCtx(), handler: "app.handler", runtimeAPIAddress: "127.0.0.1:9001"}
	s.SetSandboxContext(sb)
	s.SetInternalStateGetter(w.StateGetter())
	s.Init(w.InitRequest(), timeoutMs)
	return &verifFullStack{s: s, w: w}
}

type verifOutcome struct {
	err error
	wr  *verifWriter
	ev  []byte
}

func (f *verifFullStack) invoke() *verifOutcome { return f.invokeSized(false) }

func (f *verifFullStack) invokeSized(big bool) *verifOutcome {
	ev := verifNondetPayload("event payload")
	if big {
		verifAssume(len(ev) > interop.MaxPayloadSize)
	} else {
		verifAssume(len(ev) <= interop.MaxPayloadSize)
	}
	wr := newVerifWriter()
	f.w.Note("caller", "invoke-begin", "")
	err := f.s.Invoke(wr, &interop.Invoke{
		Payload:            bytes.NewReader(ev),
		InvokedFunctionArn: "arn:aws:lambda:us-east-1:123456789012:function:fn",
		TraceID:            "Root=1-5bef4de7-ad49b0e87f6ef6c87fc2e700;Parent=9a9197af755a6419;Sampled=1",
		ContentType:        "application/json",
	})
	es := "nil"
	if err != nil {
		es = err.Error()
	}
	f.w.Note("caller", "invoke-end", es)
	return &verifOutcome{err: err, wr: wr, ev: ev}
}

// verifFullScenario runs nInv sequential invocations; behaviours[i] is what the runtime does on
// the i-th dispatched invocation (each faulty one ends its process generation).
func verifFullScenario(nExt int, subs []string, behaviours []int) {
	verifFullScenarioX(nExt, subs, behaviours, false)
}

// raceTimers: the function-timeout timer may fire at any scheduling point (not only at
// quiescence), so every invocation may also end with the timeout outcome.
func verifFullScenarioX(nExt int, subs []string, behaviours []int, raceTimers bool) {
	// plan per started runtime process: a faulty behaviour ends the generation
	var plan [][]int
	cur := []int{}
	for _, b := range behaviours {
		cur = append(cur, b)
		if b == rapid.VbStall || b == rapid.VbExit || b == rapid.VbRespondExit {
			plan = append(plan, cur)
			cur = []int{}
		}
	}
	plan = append(plan, cur)
	f := newVerifFull(nExt, subs, plan, 3000)
	w := f.w
	w.SetRuntimeIgnoresTerm(verifRuntimeIgnoresTerm)
	execsBefore := 0
	if !raceTimers {
		w.SetSlowInit(true)
	}
	if raceTimers && verifRaceFromStart {
		// the function-timeout timer may also fire while the (lazy) initialisation is running
		verifRaceTimers(true)
	} else if raceTimers {
		// let the initialisation finish first (expiry during init is the subject of
		// VerifFullExpiryDuringInit); from now on the function-timeout timer may fire at any
		// point of an invocation
		verifSettle()
		verifRaceTimers(true)
	}
	for i, b := range behaviours {
		delivered := len(w.RuntimeBodies())
		startSeq := w.Seq()
		arrival := time.Now().UnixNano()
		o := f.invoke()
		// the event reached the runtime byte for byte
		if raceTimers && o.err == ErrInvokeTimeout && len(w.RuntimeBodies()) == delivered {
			verifReach("expiry-before-dispatch")
			continue
		}
		verifAssert(len(w.RuntimeBodies()) == delivered+1, "each invocation is handed to the runtime exactly once")
		verifAssert(w.RuntimeBodies()[delivered] == string(o.ev), "the event is handed to the runtime byte for byte")
		resp := w.RuntimeResponses()[delivered]
		// the deadline handed to the runtime is arrival time + configured function timeout (3000 ms)
		// (not under racing timers: there logical time may jump between the caller's arrival
		// and the reservation, which is a late-scheduled goroutine, not a wrong deadline)
		if raceTimers {
		} else if dl, err := strconv.ParseInt(w.Deadlines()[delivered], 10, 64); err == nil {
			want := (arrival + 3000*1000*1000) / 1000000
			verifAssert(dl >= want && dl <= want+2, "the runtime's deadline equals arrival time plus the configured function timeout")
		} else {
			verifAssert(false, "the runtime receives a numeric deadline header")
		}
		if raceTimers && o.err == ErrInvokeTimeout {
			// expiry won the race: the timeout outcome, and the environment is reset
			verifReach("expiry-won")
			continue
		}
		switch b {
		case rapid.VbRespond:
			verifReach("respond")
			verifAssert(o.err == nil, "response posted => success outcome")
			verifAssert(o.wr.writes == 1 && string(o.wr.body) == resp, "caller receives the posted response unchanged, once")
		case rapid.VbError:
			verifReach("error")
			verifAssert(o.err == nil, "error posted => invocation completes")
			verifAssert(o.wr.writes == 1 && string(o.wr.body) == resp, "caller receives the posted error body unchanged, once")
		case rapid.VbStaleThenOK:
			verifReach("stale")
			verifAssert(o.err == nil && o.wr.writes == 1 && string(o.wr.body) == resp, "a stale-id submission changes nothing for the caller")
			st := w.Statuses()
			verifAssert(len(st) >= 2 && st[len(st)-2] == "400" && st[len(st)-1] == "202", "stale id is refused with 400, the in-flight id is then accepted")
		case rapid.VbCaseVariantThenOK:
			verifReach("case-variant")
			verifAssert(o.err == nil && o.wr.writes == 1 && string(o.wr.body) == resp, "a submission for a case variant of the id changes nothing for the caller")
			st := w.Statuses()
			verifAssert(len(st) >= 2 && st[len(st)-2] == "400" && st[len(st)-1] == "202", "a case variant of the id is refused with 400 and the genuine submission is then accepted")
		case rapid.VbIllegalThenOK:
			verifReach("illegal")
			verifAssert(o.err == nil && o.wr.writes == 1 && string(o.wr.body) == resp, "illegal calls change nothing for the caller")
			st := w.Statuses()
			verifAssert(len(st) >= 3 && st[len(st)-3] == "403" && st[len(st)-2] == "400" && st[len(st)-1] == "202", "init/error after next is 403, an error for a stale id is 400, the legal response is then accepted")
		case rapid.VbDoubleRespond:
			verifReach("double")
			verifAssert(o.err == nil && o.wr.writes == 1 && string(o.wr.body) == resp, "a duplicate submission changes nothing for the caller")
			st := w.Statuses()
			verifAssert(len(st) >= 2 && st[len(st)-2] == "202" && st[len(st)-1] != "202", "second submission for the same id is refused")
		case rapid.VbStall:
			verifReach("timeout")
			verifAssert(o.err == ErrInvokeTimeout, "no answer => timeout outcome")
			verifAssert(o.wr.writes == 0, "timeout outcome carries no runtime body")
		case rapid.VbExit:
			verifReach("exit")
			verifAssert(o.err == ErrInvokeDoneFailed, "runtime exit => failure outcome")
			verifAssert(o.wr.writes == 1 && strings.Contains(string(o.wr.body), `"errorType":"Runtime.ExitError"`), "failure body names the first fault (Runtime.ExitError)")
		case rapid.VbRespondExit:
			verifReach("respond-exit")
			verifAssert(o.err == nil || o.err == ErrInvokeDoneFailed, "response then exit => success or failure outcome")
			verifAssert(o.wr.writes == 1 && string(o.wr.body) == resp, "the response already delivered is what the caller receives")
		}
		// faulty generation: everything it started is gone before the answer; the next one gets fresh processes
		if b == rapid.VbStall || b == rapid.VbExit || (b == rapid.VbRespondExit && o.err != nil) {
			endSeq := w.First("caller", "invoke-end", "")
			_ = endSeq
			gen := 0
			for g := 1; g < 12; g++ {
				if w.Count("supervisor", "exec", fmt.Sprintf("runtime-%d|/var/runtime/bootstrap", g)) > 0 {
					gen = g
				}
			}
			verifAssert(gen > 0, "a runtime generation exists")
			rt := fmt.Sprintf("runtime-%d", gen)
			verifAssert(w.Count("supervisor", "exited", rt) == 1, "the faulty generation's runtime is gone before the answer is given")
			for e := 0; e < nExt; e++ {
				en := fmt.Sprintf("extension-ext%d-%d", e, gen)
				verifAssert(w.Count("supervisor", "exited", en) == 1, "every extension of the faulty generation is gone before the answer is given")
			}
		}
		_ = startSeq
		_ = i
		_ = execsBefore
	}
	// processes are started exactly once per generation name
	for g := 1; g < 12; g++ {
		verifAssert(w.Count("supervisor", "exec", fmt.Sprintf("runtime-%d|/var/runtime/bootstrap", g)) <= 1, "a runtime generation is started at most once")
	}
	w.CheckEventGrammar()
	verifReach("scenario-done")
}

func VerifFullHealthy2() { verifFullScenario(0, nil, []int{rapid.VbRespond, rapid.VbRespond}) }
func VerifFullHealthy2Ext() {
	verifFullScenario(1, []string{"IS"}, []int{rapid.VbRespond, rapid.VbError})
}
func VerifFullStale() {
	verifFullScenario(0, nil, []int{rapid.VbStaleThenOK, rapid.VbDoubleRespond, rapid.VbRespond})
}
func VerifFullIllegal() {
	verifFullScenario(0, nil, []int{rapid.VbCaseVariantThenOK, rapid.VbIllegalThenOK, rapid.VbRespond})
}
func VerifFullTimeoutThenOK() { verifFullScenario(0, nil, []int{rapid.VbStall, rapid.VbRespond}) }
func VerifFullExitThenOK()    { verifFullScenario(0, nil, []int{rapid.VbExit, rapid.VbRespond}) }
func VerifFullRespondExit()   { verifFullScenario(0, nil, []int{rapid.VbRespondExit, rapid.VbRespond}) }
func VerifFullTimeoutExt() {
	verifFullScenario(1, []string{"IS"}, []int{rapid.VbStall, rapid.VbRespond})
}
func VerifFullExitExt() { verifFullScenario(1, []string{"I"}, []int{rapid.VbExit, rapid.VbRespond}) }

// symbolic choice of the behaviour of each of n invocations
func verifFullChoice(nExt int, subs []string, n int) {
	bs := make([]int, n)
	all := []int{rapid.VbRespond, rapid.VbError, rapid.VbStall, rapid.VbExit, rapid.VbRespondExit, rapid.VbStaleThenOK, rapid.VbDoubleRespond}
	for i := range bs {
		bs[i] = all[verifChoice(len(all), "runtime behaviour")]
	}
	verifFullScenario(nExt, subs, bs)
}

func VerifFullAny2()    { verifFullChoice(0, nil, 2) }
func VerifFullAny2Ext() { verifFullChoice(1, []string{"IS"}, 2) }
func VerifFullAny3()    { verifFullChoice(0, nil, 3) }

func VerifFullExitThenStall()  { verifFullScenario(0, nil, []int{rapid.VbExit, rapid.VbStall}) }
func VerifFullStallThenStall() { verifFullScenario(0, nil, []int{rapid.VbStall, rapid.VbStall}) }
func VerifFullRespExitThenStall() {
	verifFullScenario(0, nil, []int{rapid.VbRespondExit, rapid.VbStall})
}

// C05 "response versus expiry": the timeout timer may fire at any point of a healthy invocation.
var verifRaceFromStart bool
var verifRuntimeIgnoresTerm bool

// a stalled runtime that also ignores SIGTERM, with an extension: it is killed (not merely
// asked to terminate) before the timeout answer is given
func VerifFullTimeoutExtIgnoreTerm() {
	verifRuntimeIgnoresTerm = true
	verifFullScenario(1, []string{"IS"}, []int{rapid.VbStall, rapid.VbRespond})
}

// expiry at any point including the initialisation phase (the timed-out invocation must not be
// dispatched behind the reset)
func VerifFullRaceInit2() {
	verifRaceFromStart = true
	verifFullScenarioX(0, nil, []int{rapid.VbRespond, rapid.VbRespond}, true)
}

func VerifFullRace2() { verifFullScenarioX(0, nil, []int{rapid.VbRespond, rapid.VbRespond}, true) }
func VerifFullRace2Ext() {
	verifFullScenarioX(1, []string{"I"}, []int{rapid.VbRespond, rapid.VbRespond}, true)
}

// C10 on the FULL stack: a second caller arrives at any point of an invocation that
// stalls, times out and is reset. It is refused (ErrAlreadyReserved) or, if it arrives after the
// reset released the reservation, served by the fresh environment; it never disturbs the
// first caller's outcome, and a following sequential invocation is served normally.
func VerifFullTwoCallersTimeout() { verifTwoCallersReset(rapid.VbStall) }

// the same when the first invocation FAILS (its runtime exits) and the environment is reset for
// that reason: a caller arriving while that reset is in progress is refused, never admitted
func VerifFullTwoCallersFailure() { verifTwoCallersReset(rapid.VbExit) }

func verifTwoCallersReset(first int) {
	f := newVerifFull(0, nil, [][]int{{first}, {rapid.VbRespond, rapid.VbRespond}, {rapid.VbRespond}}, 3000)
	w := f.w
	// at most one invocation in flight: while the sandbox is being reset, the reservation (if any)
	// is still the one that was in flight when the reset began -- nobody new is admitted
	idAtReset, inReset := "", false
	verifInvariant("no caller is admitted while a reset is in progress", func() bool {
		cur := ""
		if f.s.invokeCtx != nil {
			cur = f.s.invokeCtx.Token.InvokeID
		}
		if w.ShuttingDown() {
			if !inReset {
				inReset, idAtReset = true, cur
			}
			return cur == "" || cur == idAtReset
		}
		inReset = false
		return true
	})
	outs := make([]*verifOutcome, 2)
	verifSpawn(func() { outs[0] = f.invoke() })
	// the second caller arrives in a chosen phase of the first invocation
	phase := verifChoice(5, "arrival phase of the second caller")
	verifSpawnEnv(func() {
		switch phase {
		case 0: // at once (during init / before dispatch)
		case 1: // while the runtime works on the first invocation
			verifWaitUntil(func() bool { return w.Count("", "got-invoke", "") > 0 })
		case 2: // when the timeout reset has begun
			verifWaitUntil(func() bool { return w.ShuttingDown() })
		case 3: // when the old runtime has been killed
			verifWaitUntil(func() bool { return w.Count("supervisor", "exited", "runtime-1") > 0 })
		case 4: // after the first caller got its answer
			verifWaitUntil(func() bool { return outs[0] != nil })
		}
		outs[1] = f.invoke()
	})
	verifWaitAll()
	verifSettle()
	if outs[1] == nil {
		return // the chosen phase never occurred on this path (or the second caller is still in flight)
	}
	timeouts, served, refused := 0, 0, 0
	for k := 0; k < 2; k++ {
		o := outs[k]
		verifAssert(o != nil, "both callers return")
		switch o.err {
		case ErrInvokeTimeout:
			timeouts++
			verifAssert(o.wr.writes == 0, "the timed-out caller receives no runtime body")
		case ErrInvokeDoneFailed:
			timeouts++ // the first caller's failure outcome
			verifAssert(first == rapid.VbExit, "a failure outcome only for the caller whose runtime exited")
		case ErrAlreadyReserved:
			refused++
			verifReach("refused")
			verifAssert(o.wr.writes == 0, "a refused caller receives nothing")
		case nil:
			served++
			verifReach("served-after-reset")
			verifAssert(o.wr.writes == 1, "a served caller receives exactly one body")
		default:
			verifAssert(false, "a second caller ends with refusal, timeout or success; got: "+o.err.Error())
		}
	}
	verifAssert(timeouts == 1, "exactly the caller whose runtime stalled (or exited) gets the timeout (or failure) outcome")
	// whoever was served got the response of a runtime started after the stalled generation was gone
	if served == 1 {
		gone := w.First("supervisor", "exited", "runtime-1")
		started := w.First("supervisor", "exec", "runtime-3|/var/runtime/bootstrap")
		verifAssert(gone > 0 && started > gone, "a caller admitted after the reset is served by freshly started processes")
		rs := w.RuntimeResponses()
		ok := false
		for k := 0; k < 2; k++ {
			if outs[k].err == nil && len(rs) >= 2 && string(outs[k].wr.body) == rs[1] {
				ok = true
			}
		}
		verifAssert(ok, "the served caller receives the response posted for its own invocation")
	}
	// the environment keeps serving
	o := f.invoke()
	verifAssert(o.err == nil && o.wr.writes == 1, "the next sequential invocation is served normally")
	rs := w.RuntimeResponses()
	verifAssert(string(o.wr.body) == rs[len(rs)-1], "the next sequential invocation receives its own response")
}

// faults during initialisation
func VerifFullInitCrash() {
	// the first runtime exits before its first next; the invocation that was waiting for the init fails,
	// the following one is served by new processes
	f := newVerifFull(0, nil, [][]int{{rapid.VbExitEarly}, {rapid.VbRespond}, {rapid.VbRespond}}, 3000)
	o := f.invoke()
	verifAssert(o.err != nil, "a runtime that exits during initialisation fails the pending invocation")
	verifAssert(o.err == ErrInvokeDoneFailed || o.err == ErrInitDoneFailed, "the failure is reported as an init/invoke failure, not a timeout")
	o2 := f.invoke()
	rs := f.w.RuntimeResponses()
	verifAssert(o2.err == nil && o2.wr.writes == 1 && len(rs) > 0 && string(o2.wr.body) == rs[len(rs)-1], "the following invocation is served by new processes")
	f.w.CheckEventGrammar()
	verifReach("scenario-done")
}

func VerifFullInlineInitCrash() {
	// timeout, then the runtime of the re-initialisation exits before its first next, then recovery
	f := newVerifFull(0, nil, [][]int{{rapid.VbStall}, {rapid.VbExitEarly}, {rapid.VbRespond}}, 3000)
	o := f.invoke()
	verifAssert(o.err == ErrInvokeTimeout, "stall => timeout outcome")
	o2 := f.invoke()
	verifAssert(o2.err == ErrInvokeDoneFailed, "a runtime that exits during the re-initialisation fails that invocation")
	o3 := f.invoke()
	rs := f.w.RuntimeResponses()
	verifAssert(o3.err == nil && o3.wr.writes == 1 && string(o3.wr.body) == rs[len(rs)-1], "service is normal again after one failed invocation")
	f.w.CheckEventGrammar()
	verifAssert(f.w.CountPrefix("platform", "invokeStart", "") == 3, "each of the three dispatched invocations emitted exactly one invoke-start")
	verifReach("scenario-done")
}

func VerifFullInitError() {
	// the runtime reports init/error itself and exits: the caller receives the runtime's own init-error payload
	f := newVerifFull(0, nil, [][]int{{rapid.VbInitError}, {rapid.VbRespond}, {rapid.VbRespond}}, 3000)
	o := f.invoke()
	verifAssert(o.err != nil, "a reported init error fails the pending invocation")
	verifAssert(o.wr.writes <= 1, "at most one body")
	if o.wr.writes == 1 {
		verifReach("init-error-body")
		verifAssert(strings.Contains(string(o.wr.body), "boom"), "the body is the runtime's own init-error payload")
	}
	o2 := f.invoke()
	rs := f.w.RuntimeResponses()
	verifAssert(o2.err == nil && o2.wr.writes == 1 && len(rs) > 0 && string(o2.wr.body) == rs[len(rs)-1], "the following invocation is served by new processes")
	f.w.CheckEventGrammar()
	verifReach("scenario-done")
}

// C14: the response size limit is exact and an oversize response is survivable; oversize events
// are cut at the limit, on every delivery.
func VerifC14Oversize() {
	f := newVerifFull(0, nil, [][]int{{rapid.VbOversize, rapid.VbRespond, rapid.VbNextTwice}}, 3000)
	w := f.w
	const limit = 6*1024*1024 + 100
	verifAssert(interop.MaxPayloadSize == limit, "the limit is 6 MiB + 100 bytes")
	// 1: response one byte or more over the limit
	o := f.invoke()
	rs := w.RuntimeResponses()
	st := w.Statuses()
	verifAssert(len(st) >= 1 && st[len(st)-1] == "413", "a response longer than the limit is refused to the runtime with 413")
	verifAssert(o.err == nil, "the oversize invocation completes (no reset)")
	body := string(o.wr.body)
	verifAssert(o.wr.writes == 1 && strings.Contains(body, `"errorType":"Function.ResponseSizeTooLarge"`), "the caller receives a Function.ResponseSizeTooLarge error")
	verifAssert(strings.Contains(body, "exceeded maximum allowed payload size (6291556 bytes)"), "the error states the maximum size")
	verifAssert(strings.Contains(body, fmt.Sprintf("Response payload size (%d bytes)", len(rs[0]))), "the error states the actual response size")
	verifAssert(!strings.Contains(body, rs[0]) || len(rs[0]) == 0, "nothing of the oversize payload is delivered")
	// 2: the same environment keeps serving: a response of at most the limit (including exactly the limit) is intact
	o2 := f.invoke()
	rs = w.RuntimeResponses()
	verifAssert(o2.err == nil && o2.wr.writes == 1 && string(o2.wr.body) == rs[1], "after an oversize response the same environment serves the next invocation")
	verifAssert(w.CountPrefix("supervisor", "exec", "runtime-") == 1 && w.CountPrefix("supervisor", "kill", "") == 0, "no reset happened in between")
	// 3: an event longer than the limit is cut at the limit, also when the runtime polls twice
	o3 := f.invokeSized(true)
	bodies := w.RuntimeBodies()
	verifAssert(o3.err == nil, "invocation with an oversize event completes")
	verifAssert(len(bodies) == 4, "the event was delivered on both polls")
	verifAssert(bodies[2] == string(o3.ev[:limit]), "an event longer than the limit is cut at the limit")
	verifAssert(bodies[3] == bodies[2], "a repeated poll returns the same (cut) event")
	verifAssert(w.Count("", "second-next-differs", "") == 0, "a repeated poll returns the same invocation")
	verifReach("scenario-done")
}
