//go:build verif

package rapidcore

import (
	"bytes"
	"fmt"
	"strings"

	"go.amzn.com/lambda/interop"
	"go.amzn.com/lambda/rapid"
)

// FULL composition: the real rapidcore.Server and SandboxContext on top of the
// real rapid orchestration, registration service, flows, rendering and the real
// Runtime/Extensions API handlers; scripted runtime/extension processes behind
// a fake supervisor (package rapid's harness world).

type verifFullStack struct {
	s *Server
	w *rapid.VerifWorld
}

func newVerifFull(nExt int, subs []string, plan [][]int, timeoutMs int64) *verifFullStack {
	s := NewServer()
	w := rapid.VerifNewWorld(s, nExt, subs)
	w.SetPlan(plan)
	sb := &SandboxContext{rapidCtx: w.RapidCtx(), handler: "app.handler", runtimeAPIAddress: "127.0.0.1:9001"}
	s.SetSandboxContext(sb)
	s.SetInternalStateGetter(w.StateGetter())
	s.Init(w.InitRequest(), timeoutMs)
	return &verifFullStack{s: s, w: w}
}

type verifOutcome struct {
	err error
	wr  *verifWriter
	ev  []byte
}

func (f *verifFullStack) invoke() *verifOutcome {
	ev := verifNondetBytes("event payload")
	verifAssume(len(ev) <= interop.MaxPayloadSize)
	wr := newVerifWriter()
	f.w.Note("caller", "invoke-begin", "")
	err := f.s.Invoke(wr, &interop.Invoke{
		Payload:            bytes.NewReader(ev),
		InvokedFunctionArn: "arn:aws:lambda:us-east-1:123456789012:function:fn",
		TraceID:            "Root=1-5bef4de7-ad49b0e87f6ef6c87fc2e700;Parent=9a9197af755a6419;Sampled=1",
		ContentType:        "application/json",
	})
	es := "nil"
	if err != nil {
		es = err.Error()
	}
	f.w.Note("caller", "invoke-end", es)
	return &verifOutcome{err: err, wr: wr, ev: ev}
}

// verifFullScenario runs nInv sequential invocations; behaviours[i] is what the runtime does on
// the i-th dispatched invocation (each faulty one ends its process generation).
func verifFullScenario(nExt int, subs []string, behaviours []int) {
	// plan per started runtime process: a faulty behaviour ends the generation
	var plan [][]int
	cur := []int{}
	for _, b := range behaviours {
		cur = append(cur, b)
		if b == rapid.VbStall || b == rapid.VbExit || b == rapid.VbRespondExit {
			plan = append(plan, cur)
			cur = []int{}
		}
	}
	plan = append(plan, cur)
	f := newVerifFull(nExt, subs, plan, 3000)
	w := f.w
	execsBefore := 0
	for i, b := range behaviours {
		delivered := len(w.RuntimeBodies())
		startSeq := w.Seq()
		o := f.invoke()
		// the event reached the runtime byte for byte
		verifAssert(len(w.RuntimeBodies()) == delivered+1, "each invocation is handed to the runtime exactly once")
		verifAssert(w.RuntimeBodies()[delivered] == string(o.ev), "the event is handed to the runtime byte for byte")
		resp := w.RuntimeResponses()[delivered]
		switch b {
		case rapid.VbRespond:
			verifReach("respond")
			verifAssert(o.err == nil, "response posted => success outcome")
			verifAssert(o.wr.writes == 1 && string(o.wr.body) == resp, "caller receives the posted response unchanged, once")
		case rapid.VbError:
			verifReach("error")
			verifAssert(o.err == nil, "error posted => invocation completes")
			verifAssert(o.wr.writes == 1 && string(o.wr.body) == resp, "caller receives the posted error body unchanged, once")
		case rapid.VbStaleThenOK:
			verifReach("stale")
			verifAssert(o.err == nil && o.wr.writes == 1 && string(o.wr.body) == resp, "a stale-id submission changes nothing for the caller")
			st := w.Statuses()
			verifAssert(len(st) >= 2 && st[len(st)-2] == "400" && st[len(st)-1] == "202", "stale id is refused with 400, the in-flight id is then accepted")
		case rapid.VbDoubleRespond:
			verifReach("double")
			verifAssert(o.err == nil && o.wr.writes == 1 && string(o.wr.body) == resp, "a duplicate submission changes nothing for the caller")
			st := w.Statuses()
			verifAssert(len(st) >= 2 && st[len(st)-2] == "202" && st[len(st)-1] != "202", "second submission for the same id is refused")
		case rapid.VbStall:
			verifReach("timeout")
			verifAssert(o.err == ErrInvokeTimeout, "no answer => timeout outcome")
			verifAssert(o.wr.writes == 0, "timeout outcome carries no runtime body")
		case rapid.VbExit:
			verifReach("exit")
			verifAssert(o.err == ErrInvokeDoneFailed, "runtime exit => failure outcome")
			verifAssert(o.wr.writes == 1 && strings.Contains(string(o.wr.body), `"errorType":"Runtime.ExitError"`), "failure body names the first fault (Runtime.ExitError)")
		case rapid.VbRespondExit:
			verifReach("respond-exit")
			verifAssert(o.err == nil || o.err == ErrInvokeDoneFailed, "response then exit => success or failure outcome")
			verifAssert(o.wr.writes == 1 && string(o.wr.body) == resp, "the response already delivered is what the caller receives")
		}
		// faulty generation: everything it started is gone before the answer; the next one gets fresh processes
		if b == rapid.VbStall || b == rapid.VbExit || (b == rapid.VbRespondExit && o.err != nil) {
			endSeq := w.First("caller", "invoke-end", "")
			_ = endSeq
			gen := 0
			for g := 1; g < 12; g++ {
				if w.Count("supervisor", "exec", fmt.Sprintf("runtime-%d|/var/runtime/bootstrap", g)) > 0 {
					gen = g
				}
			}
			verifAssert(gen > 0, "a runtime generation exists")
			rt := fmt.Sprintf("runtime-%d", gen)
			verifAssert(w.Count("supervisor", "exited", rt) == 1, "the faulty generation's runtime is gone before the answer is given")
			for e := 0; e < nExt; e++ {
				en := fmt.Sprintf("extension-ext%d-%d", e, gen)
				verifAssert(w.Count("supervisor", "exited", en) == 1, "every extension of the faulty generation is gone before the answer is given")
			}
		}
		_ = startSeq
		_ = i
		_ = execsBefore
	}
	// processes are started exactly once per generation name
	for g := 1; g < 12; g++ {
		verifAssert(w.Count("supervisor", "exec", fmt.Sprintf("runtime-%d|/var/runtime/bootstrap", g)) <= 1, "a runtime generation is started at most once")
	}
	verifReach("scenario-done")
}

func VerifFullHealthy2()      { verifFullScenario(0, nil, []int{rapid.VbRespond, rapid.VbRespond}) }
func VerifFullHealthy2Ext()   { verifFullScenario(1, []string{"IS"}, []int{rapid.VbRespond, rapid.VbError}) }
func VerifFullStale()         { verifFullScenario(0, nil, []int{rapid.VbStaleThenOK, rapid.VbDoubleRespond, rapid.VbRespond}) }
func VerifFullTimeoutThenOK() { verifFullScenario(0, nil, []int{rapid.VbStall, rapid.VbRespond}) }
func VerifFullExitThenOK()    { verifFullScenario(0, nil, []int{rapid.VbExit, rapid.VbRespond}) }
func VerifFullRespondExit()   { verifFullScenario(0, nil, []int{rapid.VbRespondExit, rapid.VbRespond}) }
func VerifFullTimeoutExt()    { verifFullScenario(1, []string{"IS"}, []int{rapid.VbStall, rapid.VbRespond}) }
func VerifFullExitExt()       { verifFullScenario(1, []string{"I"}, []int{rapid.VbExit, rapid.VbRespond}) }

// symbolic choice of the behaviour of each of n invocations
func verifFullChoice(nExt int, subs []string, n int) {
	bs := make([]int, n)
	all := []int{rapid.VbRespond, rapid.VbError, rapid.VbStall, rapid.VbExit, rapid.VbRespondExit, rapid.VbStaleThenOK, rapid.VbDoubleRespond}
	for i := range bs {
		bs[i] = all[verifChoice(len(all), "runtime behaviour")]
	}
	verifFullScenario(nExt, subs, bs)
}

func VerifFullAny2()    { verifFullChoice(0, nil, 2) }
func VerifFullAny2Ext() { verifFullChoice(1, []string{"IS"}, 2) }
func VerifFullAny3()    { verifFullChoice(0, nil, 3) }

func VerifFullExitThenStall()    { verifFullScenario(0, nil, []int{rapid.VbExit, rapid.VbStall}) }
func VerifFullStallThenStall()   { verifFullScenario(0, nil, []int{rapid.VbStall, rapid.VbStall}) }
func VerifFullRespExitThenStall() { verifFullScenario(0, nil, []int{rapid.VbRespondExit, rapid.VbStall}) }
