//go:build verif

package rapidcore

import (
	"fmt"
	"strings"
	"time"

	"go.amzn.com/lambda/rapid"
)

// C07: whatever the client processes do, the emulator neither panics nor wedges, every
// invocation gets an outcome in bounded (logical) time, bodies are either what the runtime posted
// for that invocation or platform-made, and once the faulty generation is gone at most one more
// invocation fails.
//
// The runtime of the FIRST generation executes every script of Lrt calls over the whole alphabet
// {next, response(in-flight id), response(bogus id), error(in-flight id), init/error, exit,
// stall, restore/next, restore/error} and then goes on as a healthy runtime; the external
// extension (if any) of the first generation executes every script of Lext calls over
// {register, next, init/error, exit/error, exit process, stall} and then goes on as a healthy
// extension. Later generations are healthy (or, with secondFault, stall / exit once more).
// Panics of the code under test and deadlocks at quiescence are reported by the engine itself.

type verifPosted struct {
	seq     int
	payload string
}

func verifC07(nExt, Lrt, Lext, secondFault, nInv int) {
	var subs []string
	if nExt > 0 {
		subs = []string{"IS"}
	}
	f := newVerifFull(nExt, subs, nil, 3000)
	w := f.w
	var posted []verifPosted
	post := func(api *rapid.VerifRuntimeAPI, id, payload string, isErr bool) int {
		var st int
		if isErr {
			st, _ = api.Error(id, "Function.Err", []byte(payload))
		} else {
			st, _ = api.Response(id, []byte(payload))
		}
		if st == 202 {
			posted = append(posted, verifPosted{w.Seq(), payload})
		}
		return st
	}
	healthyRuntime := func(api *rapid.VerifRuntimeAPI, tag string) {
		for i := 0; i < 6; i++ {
			if api.Dead() {
				return
			}
			st, id, _ := api.Next()
			if api.Dead() || st != 200 {
				return
			}
			post(api, id, fmt.Sprintf("ok-%s-%d", tag, i), false)
		}
	}
	gen1Procs := []string{"runtime-1"}
	if nExt > 0 {
		gen1Procs = append(gen1Procs, "extension-ext0-1")
	}
	w.SetRuntimeScript(func(k int, api *rapid.VerifRuntimeAPI) bool {
		if k == 1 && secondFault != 0 {
			// the second generation is faulty once more
			st, _, _ := api.Next()
			if api.Dead() || st != 200 {
				return true
			}
			if secondFault == 1 {
				verifBlockForever()
			}
			api.Exit(1)
			return true
		}
		if k != 0 {
			healthyRuntime(api, fmt.Sprint(k))
			return true
		}
		cur := "none"
		for step := 0; step < Lrt; step++ {
			if api.Dead() {
				return true
			}
			switch verifChoice(9, "runtime call") {
			case 0:
				st, id, _ := api.Next()
				if api.Dead() {
					return true
				}
				if st == 200 {
					cur = id
				}
			case 1:
				post(api, cur, fmt.Sprintf("resp-%d", step), false)
			case 2:
				post(api, "12345678-1234-4234-8234-123456789abc", "bogus", false)
			case 3:
				post(api, cur, fmt.Sprintf(`{"errorMessage":"e%d"}`, step), true)
			case 4:
				api.InitError("Runtime.Boom", []byte(`{"errorMessage":"boom","errorType":"Runtime.Boom"}`))
			case 5:
				verifReach("rt-exit")
				api.Exit(1)
				return true
			case 6:
				verifReach("rt-stall")
				verifBlockForever()
			case 7:
				api.RestoreNext()
			case 8:
				api.RestoreError("Runtime.RestoreBoom")
			}
		}
		healthyRuntime(api, "1")
		return true
	})
	if nExt > 0 {
		w.SetExtScript(func(base string, api *rapid.VerifExtAPI) {
			id := ""
			for step := 0; step < Lext; step++ {
				if api.Dead() {
					return
				}
				switch verifChoice(6, "extension call") {
				case 0:
					st, nid, _ := api.Register(base, []string{"INVOKE", "SHUTDOWN"})
					if st == 200 {
						id = nid
					}
				case 1:
					api.Next(id)
				case 2:
					api.InitError(id, "Extension.Boom")
				case 3:
					api.ExitError(id, "Extension.Bye")
				case 4:
					verifReach("ext-exit")
					api.Exit(1)
					return
				case 5:
					verifReach("ext-stall")
					verifBlockForever()
				}
			}
			// from here on a well-behaved extension
			if id == "" {
				st, nid, _ := api.Register(base, []string{"INVOKE", "SHUTDOWN"})
				if st != 200 {
					api.Exit(0)
					return
				}
				id = nid
			}
			for i := 0; i < 8; i++ {
				if api.Dead() {
					return
				}
				st, body := api.Next(id)
				if api.Dead() {
					return
				}
				if st != 200 || strings.Contains(body, `"SHUTDOWN"`) {
					api.Exit(0)
					return
				}
			}
		})
	}
	gen1Gone := func() bool {
		for _, n := range gen1Procs {
			if w.Count("supervisor", "exec", n+"|") == 0 && w.CountPrefix("supervisor", "exec", n+"|") == 0 {
				continue // never started
			}
			if w.Count("supervisor", "exited", n) == 0 {
				return false
			}
		}
		return true
	}
	// the second runtime process ever started (generation numbers are not consecutive) has exited
	secondRuntimeGone := func() bool {
		n := 0
		for g := 1; g < 16; g++ {
			rt := fmt.Sprintf("runtime-%d", g)
			if w.CountPrefix("supervisor", "exec", rt+"|") > 0 {
				n++
				if n == 2 {
					return w.Count("supervisor", "exited", rt) > 0
				}
			}
		}
		return false
	}
	failuresAfterRecovery, recovered := 0, false
	lastFailed := false
	for i := 0; i < nInv; i++ {
		if !recovered && gen1Gone() && w.CountPrefix("supervisor", "exec", "runtime-1|") > 0 && (secondFault == 0 || secondRuntimeGone()) {
			recovered = true
			verifReach("faulty-generations-gone")
		}
		startSeq := w.Seq()
		t0 := time.Now().UnixNano()
		o := f.invoke()
		elapsed := time.Now().UnixNano() - t0
		verifAssert(elapsed <= (3000+2000+50)*1000*1000, "every invocation receives its outcome within the function timeout plus the reset allowance")
		failed := o.err != nil
		if o.err == ErrInvokeTimeout {
			// (the front end answers a timeout with its own timeout text, whatever was buffered)
			verifReach("timeout")
		}
		if o.wr.writes > 0 {
			body := string(o.wr.body)
			mine := false
			for _, p := range posted {
				if p.seq >= startSeq && p.payload == body {
					mine = true
				}
			}
			platform := body == "" || strings.Contains(body, `"errorType":"Runtime.`) || strings.Contains(body, `"errorType":"Extension.`) || strings.Contains(body, `"errorType":"Sandbox.`) || strings.Contains(body, `"errorType":"Function.`)
			verifAssert(o.wr.writes == 1, "at most one body per invocation")
			verifAssert(mine || platform, "the body is what the runtime posted for this invocation or a platform-generated error: "+body)
			if mine {
				verifReach("runtime-body")
			} else {
				verifReach("platform-body")
				failed = true
			}
		} else {
			verifAssert(o.err != nil, "an invocation without a body ends with a platform outcome")
		}
		if recovered && failed {
			failuresAfterRecovery++
		}
		lastFailed = failed
	}
	verifAssert(failuresAfterRecovery <= 1, "once the faulty generations are gone at most one further invocation fails")
	if recovered {
		verifAssert(!lastFailed || failuresAfterRecovery <= 1, "service is normal again")
	}
	w.CheckEventGrammar()
	verifReach("done")
}

// runtime misuse only
func VerifC07Runtime2() { verifC07(0, 2, 0, 0, 3) }
func VerifC07Runtime3() { verifC07(0, 3, 0, 0, 3) }

// extension misuse only (the runtime is healthy)
func VerifC07Ext2() { verifC07(1, 0, 2, 0, 3) }
func VerifC07Ext3() { verifC07(1, 0, 3, 0, 3) }

// both misbehave
func VerifC07Both11() { verifC07(1, 1, 1, 0, 3) }
func VerifC07Both22() { verifC07(1, 2, 2, 0, 3) }

// two consecutive faulty generations (the second stalls / exits), then healthy ones
func VerifC07Runtime2ThenStall() { verifC07(0, 2, 0, 1, 4) }
func VerifC07Runtime2ThenExit()  { verifC07(0, 2, 0, 2, 4) }
