//go:build verif

package rapidcore

import (
	"fmt"
	"strings"

	"go.amzn.com/lambda/rapid"
)

// C06: a fault of the runtime or of an extension at each step of its protocol, with exit code 0,
// non-zero or a signal. FULL composition, 3 sequential invocations; the faulty process belongs
// to the first generation, everything started later is healthy.
//
// runtime fault points: 0 exits before its first next (during init); 1 reports init/error and
// exits; 2 exits after receiving the invocation; 3 exits after posting the response (instead of
// polling again); 4 polls again and exits while idle.
// extension fault points: 0 exits before registering; 1 exits after registering; 2 exits after
// its first event; 3 reports init/error and exits; 4 reports exit/error (after its first event)
// and exits; 5 exits while idle between two invocations.

func verifC06Fault(nExt int, who int) {
	var subs []string
	for i := 0; i < nExt; i++ {
		subs = append(subs, "IS")
	}
	f := newVerifFull(nExt, subs, nil, 3000)
	w := f.w
	nPoints := 5
	if who == 1 {
		nPoints = 6 // 5: the extension exits while idle between two invocations
	}
	point := verifChoice(nPoints, "fault point")
	kind := verifChoice(3, "exit kind (0, non-zero, signal)")
	status, signo := int32(0), int32(0)
	switch kind {
	case 1:
		status = 1
	case 2:
		signo = 11
	}
	type posted struct {
		seq     int
		payload string
	}
	var responses, initErrors []posted
	faultSeq := 0 // ghost: when the fault happened
	initErrPayload := `{"errorMessage":"boom","errorType":"Runtime.InitBoom"}`
	// 0: the function finishes at once; 1: it is still running when the extension fails and never
	// answers; 2: it is still running and posts its response after the fault (the platform error
	// may already have been sent for that id)
	runtimeMode := 0
	if who == 1 && (point == 2 || point == 4) {
		runtimeMode = verifChoice(3, "the function when the extension fails")
	}
	slowRuntime := runtimeMode != 0
	healthy := func(api *rapid.VerifRuntimeAPI, tag string) {
		for i := 0; i < 6; i++ {
			st, id, _ := api.Next()
			if api.Dead() || st != 200 {
				return
			}
			p := fmt.Sprintf("ok-%s-%d", tag, i)
			if slowRuntime && tag == "0" && i == 0 {
				// the function is still running when the extension fails
				if runtimeMode == 1 {
					verifWaitUntil(func() bool { return api.Dead() })
					return
				}
				// the platform notices the fault and answers the caller first; then the
				// function's own (late) response for the same id arrives
				verifWaitUntil(func() bool {
					return api.Dead() || (faultSeq > 0 && f.s.invokeCtx != nil && f.s.invokeCtx.ReplySent)
				})
				if api.Dead() {
					return
				}
				verifReach("late-response-after-fault")
			}
			if st, _ := api.Response(id, []byte(p)); st == 202 {
				responses = append(responses, posted{w.Seq(), p})
			}
		}
	}
	w.SetRuntimeScript(func(k int, api *rapid.VerifRuntimeAPI) bool {
		if k != 0 || who != 0 {
			healthy(api, fmt.Sprint(k))
			return true
		}
		die := func() {
			faultSeq = w.Seq()
			api.ExitWith(status, signo)
		}
		switch point {
		case 0:
			die()
		case 1:
			if st, _ := api.InitError("Runtime.InitBoom", []byte(initErrPayload)); st == 202 {
				initErrors = append(initErrors, posted{w.Seq(), initErrPayload})
			}
			die()
		case 2:
			st, _, _ := api.Next()
			if api.Dead() || st != 200 {
				return true
			}
			die()
		case 3, 4:
			st, id, _ := api.Next()
			if api.Dead() || st != 200 {
				return true
			}
			if st, _ := api.Response(id, []byte("first")); st == 202 {
				responses = append(responses, posted{w.Seq(), "first"})
			}
			if point == 4 {
				// back in next, idle; exits when the first invocation is over
				verifSpawnEnv(func() {
					verifWaitUntil(func() bool { return w.Count("caller", "invoke-end", "nil") > 0 })
					if !api.Dead() {
						die()
					}
				})
				api.Next()
				return true
			}
			die()
		}
		return true
	})
	if who == 1 {
		w.SetExtScript(func(base string, api *rapid.VerifExtAPI) {
			if base != "ext0" {
				// the second extension (if any) is healthy
				st, id, _ := api.Register(base, []string{"INVOKE", "SHUTDOWN"})
				for i := 0; st == 200 && i < 8 && !api.Dead(); i++ {
					s2, body := api.Next(id)
					if s2 != 200 || strings.Contains(body, `"SHUTDOWN"`) {
						break
					}
				}
				api.ExitWith(0, 0)
				return
			}
			die := func() {
				faultSeq = w.Seq()
				api.ExitWith(status, signo)
			}
			if point == 0 {
				die()
				return
			}
			st, id, _ := api.Register(base, []string{"INVOKE", "SHUTDOWN"})
			if st != 200 {
				return
			}
			switch point {
			case 1:
				die()
			case 3:
				api.InitError(id, "Extension.Boom")
				die()
			case 2, 4:
				s2, _ := api.Next(id)
				if api.Dead() || s2 != 200 {
					return
				}
				if point == 4 {
					api.ExitError(id, "Extension.Bye")
				}
				die()
			case 5:
				s2, _ := api.Next(id)
				if api.Dead() || s2 != 200 {
					return
				}
				// back in next, idle; exits when the first invocation is over
				verifSpawnEnv(func() {
					verifWaitUntil(func() bool { return w.Count("caller", "invoke-end", "nil") > 0 })
					if !api.Dead() {
						verifReach("extension-idle-exit")
						die()
					}
				})
				api.Next(id)
			}
		})
	}
	failures := 0
	for i := 0; i < 3; i++ {
		startSeq := w.Seq()
		o := f.invoke()
		verifAssert(o.err != ErrInvokeTimeout, "a fault is answered with a failure status, the invocation is never left hanging until the timeout")
		body := string(o.wr.body)
		var myResp, myInitErr string
		for _, p := range responses {
			if p.seq >= startSeq {
				myResp = p.payload
			}
		}
		for _, p := range initErrors {
			myInitErr = p.payload
		}
		if o.err == nil {
			verifAssert(o.wr.writes == 1 && myResp != "" && body == myResp, "a successful invocation carries the response its runtime posted")
			continue
		}
		failures++
		verifReach("failure")

		faultDuringInit := who == 0 && point <= 1 || who == 1 && (point == 0 || point == 1 || point == 3)
		switch {
		case myResp != "":
			verifReach("body-delivered-response")
			verifAssert(o.wr.writes == 1 && body == myResp, "the body is the response the runtime had already delivered")
		case myInitErr != "" && i == 0:
			verifReach("body-init-error-payload")
			verifAssert(o.wr.writes == 1 && body == myInitErr, "the body is the runtime's own init-error payload")
		case faultDuringInit && i == 0:
			verifReach("body-none")
			verifAssert(o.wr.writes == 0 || body == "", "a fault during initialisation that the runtime did not report yields the failure status only")
		default:
			verifReach("body-first-fault")
			want := "Runtime.ExitError"
			if who == 1 {
				want = "Extension.Crash"
				if point == 4 {
					want = "Extension."
				}
			}
			verifAssert(o.wr.writes == 1 && strings.Contains(body, `"errorType":"`+want), "the body is a JSON error naming the first fault ("+want+"): "+body)
		}
	}
	verifAssert(failures <= 2, "the environment recovers: at most the pending and the next invocation fail")
	// the last invocation was served by processes started after the fault
	verifAssert(faultSeq > 0, "the fault happened")
	last := w.LastSeq("", "got-invoke", "")
	_ = last
	w.CheckEventGrammar()
	verifReach(fmt.Sprintf("who-%d-point-%d-kind-%d", who, point, kind))
	verifReach("done")
}

func VerifC06RuntimeFault()    { verifC06Fault(0, 0) }
func VerifC06RuntimeFaultExt() { verifC06Fault(1, 0) }
func VerifC06ExtensionFault()  { verifC06Fault(1, 1) }
func VerifC06ExtensionFault2() { verifC06Fault(2, 1) }
