//go:build verif

package rapidcore

import (
	"strings"

	"go.amzn.com/lambda/rapid"
)

// C12: every sequence of Runtime API calls is answered as the documented lifecycle
// prescribes. The first runtime process executes a symbolic script of L calls over
// {next, response(in-flight id), response(stale id), error(in-flight id), init/error, non-existing
// call (unknown route / wrong method / restore call outside snapshot mode)}, sent through the real
// chi router with its middleware chain; a small
// reference automaton (written from the property text) predicts status and blocking behaviour
// of every call; refused calls must leave the automaton (hence the following answers) unchanged.
func verifRuntimeScript(L int) {
	f := newVerifFull(0, nil, nil, 3000)
	w := f.w
	const (
		stStarted = iota
		stRunning
		stResponded
		stInitError
	)
	w.SetRuntimeScript(func(k int, api *rapid.VerifRuntimeAPI) bool {
		if k != 0 {
			return false // later generations: healthy runtime
		}
		state, cur := stStarted, ""
		nexts := 0
		for step := 0; step < L; step++ {
			if api.Dead() {
				return true
			}
			op := verifChoice(6, "runtime api call")
			id := cur
			if id == "" {
				id = "none"
			}
			switch op {
			case 0: // next
				switch state {
				case stStarted, stResponded:
					if nexts >= 2 {
						return true // no third invocation will arrive: do not park forever
					}
					nexts++
					st, nid, _ := api.Next()
					if api.Dead() {
						return true
					}
					verifAssert(st == 200 && nid != "" && nid != cur, "next blocks until an invocation is available and then delivers a new one")
					state, cur = stRunning, nid
					verifReach("next-new")
				case stRunning:
					st, nid, _ := api.Next()
					if api.Dead() {
						return true
					}
					verifAssert(st == 200 && nid == cur, "next repeated before responding returns the same invocation")
					verifReach("next-same")
				case stInitError:
					st, _, body := api.Next()
					verifAssert(st == 403 && strings.Contains(body, "InvalidStateTransition"), "next after init/error is refused with 403")
				}
			case 1, 3: // response / error for the in-flight id
				var st int
				var body string
				if op == 1 {
					st, body = api.Response(id, []byte("payload"))
				} else {
					st, body = api.Error(id, "Function.Err", []byte(`{"errorMessage":"x"}`))
				}
				if api.Dead() {
					return true
				}
				switch {
				case cur == "":
					verifAssert(st == 400 && strings.Contains(body, "InvalidRequestID"), "response/error without an in-flight invocation is refused with 400")
				case state == stRunning:
					verifAssert(st == 202, "response/error is accepted once per invocation, after next")
					state = stResponded
					verifReach("accepted")
				default:
					verifReach("refused-state")
					verifAssert(st == 403 && strings.Contains(body, "InvalidStateTransition"), "a second response/error for the same invocation is refused with 403")
				}
			case 2: // response for a stale id
				st, body := api.Response("stale-"+id, []byte("stale"))
				if api.Dead() {
					return true
				}
				verifAssert(st == 400 && strings.Contains(body, "InvalidRequestID"), "a wrong request id is refused with 400")
			case 5: // calls that do not exist (here): unknown route, known route with the wrong method, snapshot-restore calls outside snapshot mode
				which := verifChoice(4, "non-existing call")
				var st int
				switch which {
				case 0:
					st = api.Raw("GET", "/runtime/invocation/previous")
					verifAssert(st == 404, "an unknown route is answered with 404")
				case 1:
					st = api.Raw("POST", "/runtime/invocation/next")
					verifAssert(st == 405, "a known route with the wrong method is answered with 405")
				case 2:
					st = api.Raw("GET", "/runtime/restore/next")
					verifAssert(st == 404, "snapshot-restore calls do not exist outside snapshot mode")
				case 3:
					st = api.Raw("POST", "/runtime/restore/error")
					verifAssert(st == 404, "snapshot-restore calls do not exist outside snapshot mode")
				}
				verifReach("no-such-call")
				// the state is unchanged: the automaton does not move
			case 4: // init/error
				st, body := api.InitError("Runtime.Boom", []byte(`{"errorMessage":"boom"}`))
				if api.Dead() {
					return true
				}
				if state == stStarted {
					verifAssert(st == 202, "init/error is accepted before the first next")
					state = stInitError
					verifReach("init-error")
				} else {
					verifReach("init-error-refused")
					verifAssert(st == 403 && strings.Contains(body, "InvalidStateTransition"), "init/error after the first next (or repeated) is refused with 403")
				}
			}
		}
		return true
	})
	// the platform side: two invocations (whatever the script does, each gets an outcome)
	for i := 0; i < 2; i++ {
		o := f.invoke()
		verifAssert(o.err == nil || o.err == ErrInvokeTimeout || o.err == ErrInvokeDoneFailed || o.err == ErrInitDoneFailed, "every invocation gets an outcome")
	}
	verifReach("script-done")
}

func VerifC12Script3() { verifRuntimeScript(3) }
func VerifC12Script4() { verifRuntimeScript(4) }
func VerifC12Script5() { verifRuntimeScript(5) }
