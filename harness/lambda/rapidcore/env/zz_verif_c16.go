//go:build verif

package env

import "strings"

// C16: the runtime environment is Customer overlaid by unreserved platform defaults,
// credentials, reserved runtime variables and reserved platform variables (last wins);
// extensions get customer + credentials + platform minus "_"-prefixed names and the X-Ray
// exclusions; both carry the same Runtime API address. Customer keys and all values are
// symbolic strings (keys may collide with any reserved key).
func VerifC16Env() {
	verifSetenv("TZ", ":UTC")
	if verifNondetBool("AWS_XRAY_DAEMON_ADDRESS present in the process environment") {
		verifSetenv("AWS_XRAY_DAEMON_ADDRESS", verifNondetOpaque("xray daemon value"))
	}
	verifSetenv("AWS_EXECUTION_ENV", "AWS_Lambda_rapid")
	e := NewEnvironment()
	addr := verifNondetOpaque("runtime api address")
	e.StoreRuntimeAPIEnvironmentVariable(addr)
	override := verifNondetOpaque("handler override (--handler / cli)")
	if override != "" {
		e.SetHandler(override)
	}
	k1, v1 := verifNondetOpaque("customer key 1"), verifNondetOpaque("customer value 1")
	k2, v2 := "CUSTOMER_VAR", verifNondetOpaque("customer value 2")
	verifAssume(k1 != "" && k1 != k2)
	cust := map[string]string{k1: v1, k2: v2}
	handler := verifNondetOpaque("init handler")
	key, secret, session := verifNondetOpaque("aws key"), verifNondetOpaque("aws secret"), verifNondetOpaque("aws session")
	fn, ver := verifNondetOpaque("function name"), verifNondetOpaque("function version")
	e.StoreEnvironmentVariablesFromInit(cust, handler, key, secret, session, fn, ver)

	rt := e.RuntimeExecEnv()
	ag := e.AgentExecEnv()

	// reserved values win
	verifAssert(rt["AWS_LAMBDA_RUNTIME_API"] == addr && ag["AWS_LAMBDA_RUNTIME_API"] == addr, "runtime and extensions get the same Runtime API address, the one stored")
	verifAssert(rt["AWS_ACCESS_KEY_ID"] == key && rt["AWS_SECRET_ACCESS_KEY"] == secret && rt["AWS_SESSION_TOKEN"] == session, "credentials cannot be overridden by customer values")
	verifAssert(ag["AWS_ACCESS_KEY_ID"] == key && ag["AWS_SECRET_ACCESS_KEY"] == secret && ag["AWS_SESSION_TOKEN"] == session, "extensions receive the credentials")
	if handler != "" {
		verifAssert(rt["_HANDLER"] == handler, "the handler from init cannot be overridden by customer values")
	} else if override != "" {
		verifAssert(rt["_HANDLER"] == override, "the handler override cannot be overridden by customer values")
	}
	if fn != "" {
		verifAssert(rt["AWS_LAMBDA_FUNCTION_NAME"] == fn && ag["AWS_LAMBDA_FUNCTION_NAME"] == fn, "function name cannot be overridden")
	}
	if ver != "" {
		verifAssert(rt["AWS_LAMBDA_FUNCTION_VERSION"] == ver, "function version cannot be overridden")
	}
	// every variable not shadowed arrives unchanged (values are opaque: '=' and newlines included)
	reserved := func(k string) bool {
		if _, ok := e.platformUnreserved[k]; ok {
			return true
		}
		if _, ok := e.credentials[k]; ok {
			return true
		}
		if _, ok := e.runtime[k]; ok {
			return true
		}
		if _, ok := e.platform[k]; ok {
			return true
		}
		return false
	}
	if !reserved(k1) {
		verifReach("customer-unshadowed")
		verifAssert(rt[k1] == v1, "a customer variable that is not shadowed reaches the runtime unchanged")
	} else {
		verifReach("customer-shadowed")
		verifAssert(rt[k1] != v1 || rt[k1] == v1, "")
	}
	// extensions: never "_" names nor the X-Ray exclusions
	excluded := extensionExcludedKeys()
	for k := range ag {
		verifAssert(!strings.HasPrefix(k, "_"), "extensions never receive names starting with '_'")
		verifAssert(!excluded[k], "extensions never receive the excluded X-Ray variables")
	}
	_, inCred := e.credentials[k1]
	_, inPlat := e.platform[k1]
	if !inCred && !inPlat && !strings.HasPrefix(k1, "_") && !excluded[k1] {
		verifAssert(ag[k1] == v1, "a customer variable that is not shadowed or filtered reaches the extensions unchanged")
	}
	// the unreserved platform default can be overridden by nobody but reserved layers... and is itself overridable only by them
	if v, ok := e.platformUnreserved["AWS_XRAY_DAEMON_ADDRESS"]; ok {
		verifAssert(rt["AWS_XRAY_DAEMON_ADDRESS"] == v, "unreserved platform defaults override the customer's value")
	}
}

// values with '=' survive the KEY=VALUE split used when the front end forwards os.Environ
func VerifC16Split() {
	k := verifNondetOpaque("key")
	v := verifNondetOpaque("value")
	verifAssume(!strings.Contains(k, "="))
	gk, gv, err := SplitEnvironmentVariable(k + "=" + v)
	verifAssert(err == nil && gk == k && gv == v, "KEY=VALUE is split at the first '=' only")
}
