//go:build verif

package rapidcore

import (
	"bytes"
	"errors"
	"net/http"

	"go.amzn.com/lambda/core/statejson"
	"go.amzn.com/lambda/fatalerror"
	"go.amzn.com/lambda/interop"
)

// ---------------------------------------------------------------------------
// recording reply stream

type verifWriter struct {
	hdr    http.Header
	status int
	body   []byte
	writes int
}

func newVerifWriter() *verifWriter { return &verifWriter{hdr: http.Header{}} }

func (w *verifWriter) Header() http.Header { return w.hdr }
func (w *verifWriter) Write(p []byte) (int, error) {
	w.body = append(w.body, p...)
	w.writes++
	return len(p), nil
}
func (w *verifWriter) WriteHeader(s int) {
	if w.status == 0 {
		w.status = s
	}
}

// ---------------------------------------------------------------------------
// stub sandbox: the "rapid" side seen by rapidcore.Server

type verifRuntimeBehaviour int

const (
	vbRespond          verifRuntimeBehaviour = iota // runtime posts /response with its payload, invoke succeeds
	vbError                                         // runtime posts /error, invoke succeeds
	vbStall                                         // runtime never answers (timeout territory)
	vbCrash                                         // runtime exits: invoke fails with a default error response
	vbRespondCrash                                  // runtime posts /response and then the invoke fails
	vbWrongID                                       // runtime posts for a stale id, then for the right one
	vbRespondWhenQuiet                              // runtime posts /response only when nothing else can happen
)

type verifSandbox struct {
	s                *Server
	initFails        bool
	behaviours       []verifRuntimeBehaviour // per invocation
	payloads         [][]byte
	nInvokes         int
	resetCh          chan struct{}
	resets           int
	shutdowns        int
	sendErrs         []error // result of every send attempt made by the "runtime"
	curDone          chan *interop.InvokeFailure
	lateResetFailure bool
}

func (sb *verifSandbox) Init(i *interop.Init, timeoutMs int64) interop.InitContext {
	return &verifInitCtx{sb: sb}
}
func (sb *verifSandbox) Reset(reset *interop.Reset) (interop.ResetSuccess, *interop.ResetFailure) {
	sb.resets++
	// a reset cancels the running invoke: its Wait returns ResetReceived
	if sb.curDone != nil {
		select {
		case sb.curDone <- &interop.InvokeFailure{ResetReceived: true, ErrorType: fatalerror.SandboxTimeout, DefaultErrorResponse: verifTimeoutErr}:
		default:
		}
	}
	return interop.ResetSuccess{}, nil
}
func (sb *verifSandbox) Shutdown(shutdown *interop.Shutdown) interop.ShutdownSuccess {
	sb.shutdowns++
	return interop.ShutdownSuccess{}
}
func (sb *verifSandbox) Restore(restore *interop.Restore) (interop.RestoreResult, error) {
	return interop.RestoreResult{}, nil
}
func (sb *verifSandbox) SetRuntimeStartedTime(int64)                             {}
func (sb *verifSandbox) SetInvokeResponseMetrics(*interop.InvokeResponseMetrics) {}

type verifInitCtx struct{ sb *verifSandbox }

func (c *verifInitCtx) Wait() (interop.InitSuccess, *interop.InitFailure) {
	if c.sb.initFails {
		return interop.InitSuccess{}, &interop.InitFailure{ErrorType: fatalerror.RuntimeExit, ErrorMessage: errors.New("init failed"), Ack: make(chan struct{}, 1)}
	}
	return interop.InitSuccess{Ack: make(chan struct{}, 1)}, nil
}
func (c *verifInitCtx) Reserve() interop.InvokeContext {
	return &verifInvokeCtx{sb: c.sb, done: make(chan *interop.InvokeFailure, 2)}
}

type verifInvokeCtx struct {
	sb   *verifSandbox
	done chan *interop.InvokeFailure
	n    int
}

var verifDefaultErr = &interop.ErrorInvokeResponse{
	Headers:       interop.InvokeResponseHeaders{ContentType: "application/json"},
	FunctionError: interop.FunctionError{Type: fatalerror.RuntimeExit},
	Payload:       []byte(`{"errorType":"Runtime.ExitError"}`),
}

var verifTimeoutErr = &interop.ErrorInvokeResponse{
	Headers:       interop.InvokeResponseHeaders{ContentType: "application/json"},
	FunctionError: interop.FunctionError{Type: fatalerror.SandboxTimeout},
	Payload:       []byte(`{"errorType":"Sandbox.Timedout"}`),
}

func (c *verifInvokeCtx) SendRequest(i *interop.Invoke, sender interop.InvokeResponseSender) {
	sb := c.sb
	n := sb.nInvokes
	sb.nInvokes++
	c.n = n
	sb.curDone = c.done
	b := vbRespond
	if n < len(sb.behaviours) {
		b = sb.behaviours[n]
	}
	var payload []byte
	if n < len(sb.payloads) {
		payload = sb.payloads[n]
	}
	id := i.ID
	// the runtime side runs concurrently with the platform, like the Runtime API handlers do
	verifSpawnEnv(func() {
		post := func(id string) {
			err := sender.SendResponse(id, &interop.StreamableInvokeResponse{Payload: bytes.NewReader(payload)})
			sb.sendErrs = append(sb.sendErrs, err)
		}
		switch b {
		case vbRespond:
			post(id)
			c.done <- nil
		case vbError:
			err := sender.SendErrorResponse(id, &interop.ErrorInvokeResponse{Payload: payload, FunctionError: interop.FunctionError{Type: "Function.Err"}})
			sb.sendErrs = append(sb.sendErrs, err)
			c.done <- nil
		case vbStall:
		case vbCrash:
			c.done <- &interop.InvokeFailure{ErrorType: fatalerror.RuntimeExit, DefaultErrorResponse: verifDefaultErr}
		case vbRespondCrash:
			post(id)
			c.done <- &interop.InvokeFailure{ErrorType: fatalerror.RuntimeExit, DefaultErrorResponse: verifDefaultErr}
		case vbRespondWhenQuiet:
			verifSettle()
			post(id)
			c.done <- nil
		case vbWrongID:
			post("stale-" + id)
			post(id)
			c.done <- nil
		}
	})
}

func (c *verifInvokeCtx) Wait() (interop.InvokeSuccess, *interop.InvokeFailure) {
	f := <-c.done
	if f != nil && f.ResetReceived && c.sb.lateResetFailure {
		// the goroutine that waits for the outcome is slow: it sees the reset-flagged failure only
		// when the next invocation has already been dispatched
		n := c.n
		verifWaitUntil(func() bool { return c.sb.nInvokes > n+1 })
		verifReach("late-reset-failure")
	}
	if f != nil {
		return interop.InvokeSuccess{}, f
	}
	return interop.InvokeSuccess{}, nil
}

func newVerifServer(sb *verifSandbox, timeoutMs int64) *Server {
	s := NewServer()
	sb.s = s
	s.SetSandboxContext(sb)
	s.SetInternalStateGetter(func() statejson.InternalStateDescription { return statejson.InternalStateDescription{} })
	s.Init(&interop.Init{}, timeoutMs)
	return s
}

func verifPayload(label string) []byte {
	p := verifNondetBytes(label)
	verifAssume(len(p) <= interop.MaxPayloadSize)
	return p
}

// ---------------------------------------------------------------------------
// C10: at most one invocation in flight; extra callers are refused harmlessly

// Two callers race on the real Server.Invoke (all of its goroutines). The second
// caller may arrive in any phase of the first. No panic obligation may be
// reachable, a refused caller gets ErrAlreadyReserved and nothing is written to
// its stream, the winner's outcome is unaffected.
func VerifC10TwoCallers() {
	p0, p1 := verifPayload("payload of caller 0's invocation"), verifPayload("payload of caller 1's invocation")
	sb := &verifSandbox{payloads: [][]byte{p0, p1}}
	s := newVerifServer(sb, 3000)
	w := []*verifWriter{newVerifWriter(), newVerifWriter()}
	res := make([]error, 2)
	fin := make([]bool, 2)
	for k := 0; k < 2; k++ {
		k := k
		verifSpawn(func() {
			res[k] = s.Invoke(w[k], &interop.Invoke{Payload: bytes.NewReader(nil)})
			fin[k] = true
		})
	}
	verifWaitAll()
	verifAssert(fin[0] && fin[1], "both callers return")
	served := 0
	for k := 0; k < 2; k++ {
		switch res[k] {
		case nil:
			served++
			verifAssert(w[k].writes == 1, "a served caller receives exactly one body")
		case ErrAlreadyReserved:
			verifReach("refused")
			verifAssert(w[k].writes == 0, "a refused caller receives nothing")
		default:
			verifAssert(false, "unexpected outcome for a caller: "+res[k].Error())
		}
	}
	verifAssert(served >= 1, "at least one of two callers is served")
	if served == 2 {
		verifReach("both-served-sequentially")
	}
	// bodies: each served caller got one of the posted payloads, and not the same invocation twice
	if res[0] == nil && res[1] == nil {
		a := string(w[0].body) == string(p0) && string(w[1].body) == string(p1)
		b := string(w[0].body) == string(p1) && string(w[1].body) == string(p0)
		verifAssert(a || b, "two served callers receive the two posted payloads, one each")
	} else if res[0] == nil {
		verifAssert(string(w[0].body) == string(p0), "the single served caller receives the payload posted for its invocation")
	} else if res[1] == nil {
		verifAssert(string(w[1].body) == string(p0), "the single served caller receives the payload posted for its invocation")
	}
	// the environment keeps serving: a following sequential invocation succeeds
	p2 := verifPayload("payload of the following invocation")
	sb.payloads = append(sb.payloads[:sb.nInvokes], p2)
	w2 := newVerifWriter()
	err := s.Invoke(w2, &interop.Invoke{Payload: bytes.NewReader(nil)})
	verifAssert(err == nil && string(w2.body) == string(p2), "the next sequential invocation is served normally")
}

// ---------------------------------------------------------------------------
// C01.4 / C02 / C05.1 / C06.2: a sequence of invocations through the real
// Server.Invoke, each with a symbolic runtime behaviour.

func verifCheckInvocation(sb *verifSandbox, b verifRuntimeBehaviour, err error, w *verifWriter, payload []byte, resetsBefore int, sendsBefore int) {
	switch b {
	case vbRespond:
		verifReach("respond")
		verifAssert(err == nil, "response posted => invocation succeeds")
		verifAssert(w.writes == 1 && string(w.body) == string(payload), "caller receives exactly the posted response body")
		verifAssert(sb.sendErrs[sendsBefore] == nil, "first response for the in-flight id is accepted")
	case vbError:
		verifReach("error")
		verifAssert(err == nil, "error posted => invocation completes")
		verifAssert(w.writes == 1 && string(w.body) == string(payload), "caller receives exactly the posted error body")
		verifAssert(w.hdr.Get("Error-Type") == "" || true, "")
	case vbStall:
		verifReach("timeout")
		verifAssert(err == ErrInvokeTimeout, "no answer => timeout outcome")
		verifAssert(w.writes == 0, "timed-out caller receives no runtime body")
		verifAssert(sb.resets == resetsBefore+1, "timeout resets the environment exactly once before answering")
	case vbCrash:
		verifReach("crash")
		verifAssert(err == ErrInvokeDoneFailed, "runtime exit => failure outcome")
		verifAssert(w.writes == 1 && string(w.body) == string(verifDefaultErr.Payload), "caller receives the platform's default error body")
		verifAssert(sb.resets == resetsBefore+1, "failure resets the environment exactly once before answering")
	case vbRespondCrash:
		verifReach("respond-crash")
		verifAssert(err == ErrInvokeDoneFailed, "runtime exit after response => failure outcome")
		verifAssert(w.writes == 1 && string(w.body) == string(payload), "already delivered response is what the caller receives")
	case vbWrongID:
		verifReach("wrong-id")
		verifAssert(err == nil, "stale id refused, right id accepted => success")
		verifAssert(sb.sendErrs[sendsBefore] == interop.ErrInvalidInvokeID, "a response for another id is refused")
		verifAssert(sb.sendErrs[sendsBefore+1] == nil, "refusal does not affect the following legal response")
		verifAssert(w.writes == 1 && string(w.body) == string(payload), "caller receives exactly the posted response body")
	}
}

func verifSequence(n int, withStall bool) {
	sb := &verifSandbox{}
	nb := 5
	if withStall {
		nb = 6
	}
	bs := make([]verifRuntimeBehaviour, n)
	for i := 0; i < n; i++ {
		c := verifChoice(nb, "runtime behaviour")
		// order: respond, error, crash, respondCrash, wrongID, (stall)
		bs[i] = []verifRuntimeBehaviour{vbRespond, vbError, vbCrash, vbRespondCrash, vbWrongID, vbStall}[c]
		sb.behaviours = append(sb.behaviours, bs[i])
		sb.payloads = append(sb.payloads, verifPayload("runtime payload"))
	}
	s := newVerifServer(sb, 3000)
	ws := make([]*verifWriter, n)
	for i := 0; i < n; i++ {
		ws[i] = newVerifWriter()
		resets, sends := sb.resets, len(sb.sendErrs)
		inv := &interop.Invoke{Payload: bytes.NewReader(nil)}
		err := s.Invoke(ws[i], inv)
		verifCheckInvocation(sb, bs[i], err, ws[i], sb.payloads[i], resets, sends)
		verifAssert(sb.nInvokes == i+1, "each invocation is dispatched to the runtime exactly once")
		for j := 0; j < i; j++ {
			verifAssert(ws[j].writes <= 1, "an earlier caller never receives a second body")
		}
	}
}

func VerifC01Sequence1()      { verifSequence(1, true) }
func VerifC01Sequence2()      { verifSequence(2, false) }
func VerifC01Sequence2Stall() { verifSequence(2, true) }
func VerifC01Sequence3()      { verifSequence(3, false) }

// C05 / C01: the function timeout may expire at any point of a healthy invocation (stub
// sandbox). Each invocation ends with the response or with the timeout outcome, and whatever
// happened to it, the following invocation gets its own response (no stale completion signal).
func VerifC05ExpiryRaceStub() {
	sb := &verifSandbox{}
	n := 2
	for i := 0; i < n; i++ {
		sb.behaviours = append(sb.behaviours, vbRespond)
		sb.payloads = append(sb.payloads, verifPayload("runtime payload"))
	}
	s := newVerifServer(sb, 3000)
	verifSettle()
	verifRaceTimers(true)
	for i := 0; i < n; i++ {
		w := newVerifWriter()
		dispatched := sb.nInvokes
		err := s.Invoke(w, &interop.Invoke{Payload: bytes.NewReader(nil)})
		if err == ErrInvokeTimeout {
			verifReach("expiry-won")
			continue
		}
		verifReach("response-won")
		verifAssert(err == nil, "a healthy invocation ends with success or with the timeout outcome")
		verifAssert(sb.nInvokes == dispatched+1, "a successful invocation was dispatched to the runtime")
		verifAssert(w.writes == 1 && string(w.body) == string(sb.payloads[dispatched]), "a successful invocation returns the body posted for it, whatever happened to the previous one")
	}
}

// ---------------------------------------------------------------------------
// C02 / C01.2: symbolic script over the Server's reservation and reply API against a ghost
// model: only the in-flight id is accepted, only once, and only onto the reservation's stream.

func verifServerScript(L int) {
	sb := &verifSandbox{}
	s := newVerifServer(sb, 3000)
	verifSettle()
	verifSpawnEnv(func() { // what FastInvoke does with the metrics of an accepted response
		for {
			<-s.sendResponseChan
		}
	})
	reserved, sent := false, false
	cur, prev := "", ""
	var stream *verifWriter
	expectWrites := map[*verifWriter]int{}
	var all []*verifWriter
	for i := 0; i < L; i++ {
		switch verifChoice(4, "server op") {
		case 0: // reserve
			resp, err := s.Reserve("", "", "")
			if reserved {
				verifAssert(err == ErrAlreadyReserved, "a second reservation is refused")
			} else {
				verifAssert(err == nil && resp != nil, "reservation succeeds when idle")
				reserved, sent, stream = true, false, nil
				prev, cur = cur, resp.Token.InvokeID
				verifAssert(cur != prev && cur != "", "each reservation gets a fresh request id")
			}
		case 1: // attach the caller's reply stream
			w := newVerifWriter()
			all = append(all, w)
			id, err := s.setReplyStream(w, false)
			switch {
			case !reserved:
				verifAssert(err == ErrNotReserved, "no reply stream without a reservation")
			case sent:
				verifAssert(err == ErrAlreadyReplied, "no reply stream after the reply")
			case stream != nil:
				verifAssert(err == ErrAlreadyInvocating, "only one reply stream per reservation")
			default:
				verifAssert(err == nil && id == cur, "reply stream attached to the in-flight id")
				stream = w
			}
		case 2: // response / error for some id
			which := verifChoice(3, "id used")
			id := []string{cur, prev, "bogus-id"}[which]
			payload := verifPayload("posted payload")
			var err error
			if verifChoice(2, "response or error") == 0 {
				err = s.SendResponse(id, &interop.StreamableInvokeResponse{Payload: bytes.NewReader(payload)})
			} else {
				err = s.SendErrorResponse(id, &interop.ErrorInvokeResponse{Payload: payload, FunctionError: interop.FunctionError{Type: "Function.E"}})
			}
			switch {
			case !reserved || id != cur || id == "":
				verifReach("refused-id")
				verifAssert(err == interop.ErrInvalidInvokeID, "a submission for any id but the in-flight one is refused with ErrInvalidInvokeID")
			case sent:
				verifReach("refused-dup")
				verifAssert(err == interop.ErrResponseSent, "a second submission for the in-flight id is refused with ErrResponseSent")
			case stream == nil:
				verifAssert(err != nil && err != interop.ErrInvalidInvokeID && err != interop.ErrResponseSent, "submission before the caller's stream is attached is refused")
			default:
				verifReach("accepted")
				verifAssert(err == nil, "first submission for the in-flight id is accepted")
				sent = true
				expectWrites[stream] = 1
				verifAssert(string(stream.body) == string(payload), "the caller's stream receives exactly the posted body")
			}
		case 3: // release
			err := s.Release()
			if reserved {
				verifAssert(err == nil, "release of a reservation succeeds")
			} else {
				verifAssert(err == ErrNotReserved, "release without reservation is refused")
			}
			reserved, sent, stream = false, false, nil
		}
		for _, w := range all {
			verifAssert(w.writes == expectWrites[w], "every caller's stream received exactly the accepted body, nothing else")
		}
	}
}

func VerifC02ServerScript4() { verifServerScript(4) }
func VerifC02ServerScript5() { verifServerScript(5) }
func VerifC02ServerScript6() { verifServerScript(6) }

// A slow internal-state getter: FastInvoke's completion goroutine of invocation A evaluates the
// state getter right before it posts A's DONE. The getter blocks until the function timeout of A
// has reset the environment AND the next invocation B holds the reservation. A's DONE then
// arrives late: it must be discarded, B must end with its own response (stale DONE of an earlier
// invocation is one of the leftovers a reset must not leave behind: C05, C07, C08).
func VerifC05SlowStateGetter() {
	pa, pb := verifPayload("runtime payload A"), verifPayload("runtime payload B")
	sb := &verifSandbox{behaviours: []verifRuntimeBehaviour{vbRespond, vbRespondWhenQuiet}, payloads: [][]byte{pa, pb}}
	s := newVerifServer(sb, 3000)
	calls := 0
	bReserved := false
	s.SetInternalStateGetter(func() statejson.InternalStateDescription {
		calls++
		if calls == 2 { // (the first call is A's Reserve, the second A's completion report)
			verifWaitUntil(func() bool { return bReserved })
			verifReach("late-done")
		}
		return statejson.InternalStateDescription{}
	})
	verifSettle()
	wa := newVerifWriter()
	errA := s.Invoke(wa, &interop.Invoke{Payload: bytes.NewReader(nil)})
	verifAssert(errA == ErrInvokeTimeout, "an invocation whose completion is not reported in time ends with the timeout outcome")
	wb := newVerifWriter()
	verifSpawnEnv(func() {
		verifWaitUntil(func() bool { return s.invokeCtx != nil })
		bReserved = true
	})
	errB := s.Invoke(wb, &interop.Invoke{Payload: bytes.NewReader(nil)})
	verifAssert(errB == nil, "the next invocation succeeds")
	verifAssert(sb.nInvokes == 2, "the next invocation was dispatched to its runtime")
	verifAssert(wb.writes == 1 && string(wb.body) == string(pb), "the next invocation returns the body posted for it, not the late completion of the previous one")
	verifReach("done")
}

// C02: the platform error of an invocation that was cut short by its timeout reset is never
// delivered for a LATER id: the goroutine that waits for invocation A's outcome learns about the
// reset only when invocation B has been dispatched; B's caller must get B's response and the
// runtime's first response for B must be accepted.
func VerifC02LateResetFailure() {
	pb := verifPayload("runtime payload B")
	sb := &verifSandbox{behaviours: []verifRuntimeBehaviour{vbStall, vbRespondWhenQuiet}, payloads: [][]byte{nil, pb}, lateResetFailure: true}
	s := newVerifServer(sb, 3000)
	verifSettle()
	wa := newVerifWriter()
	errA := s.Invoke(wa, &interop.Invoke{Payload: bytes.NewReader(nil)})
	verifAssert(errA == ErrInvokeTimeout && wa.writes == 0, "the stalled invocation ends with the timeout outcome and no body")
	wb := newVerifWriter()
	errB := s.Invoke(wb, &interop.Invoke{Payload: bytes.NewReader(nil)})
	verifAssert(errB == nil, "the next invocation succeeds")
	verifAssert(wb.writes == 1 && string(wb.body) == string(pb), "the next caller receives its own response, not the platform error of the previous invocation")
	verifAssert(len(sb.sendErrs) == 1 && sb.sendErrs[0] == nil, "the runtime's (first) response for the next invocation is accepted")
	verifReach("done")
}
