//go:build verif

package rapidcore

import (
	"strings"

	"go.amzn.com/lambda/rapid"
)

// C13: an extension (external or internal) executes a symbolic script of L calls over
// {register(INVOKE), register(bad event), register(SHUTDOWN), next, init/error, exit/error,
// next with unknown identifier, next without identifier}; a reference automaton written from
// the property text predicts every answer; refused calls leave it unchanged.
func verifExtAutomaton(api *rapid.VerifExtAPI, name string, internal bool, L int) {
	const (
		sNone = iota // not registered
		sRegistered
		sRunning   // received at least one event
		sFinalInit // init/error reported
		sFinalExit // exit/error reported
	)
	final := func(s int) bool { return s == sFinalInit || s == sFinalExit }
	state := sNone
	id := ""
	nexts := 0
	for step := 0; step < L; step++ {
		if api.Dead() {
			return
		}
		switch verifChoice(8, "extension api call") {
		case 0: // register for INVOKE, with or without the accountId feature (and an unknown feature)
			feat := []string{"", "accountId", "somethingElse, accountId", "somethingElse"}[verifChoice(4, "feature header")]
			st, nid, body := api.RegisterWithFeatures(name, []string{"INVOKE"}, feat)
			if api.Dead() {
				return
			}
			if st == 200 && strings.Contains(feat, "accountId") {
				verifReach("account-id")
				verifAssert(strings.Contains(body, `"accountId":"123456789012"`), "with the accountId feature the registration data carries the account id the platform was initialised with")
				body = strings.Replace(body, `"accountId":"123456789012"`, "", 1)
			}
			if state == sNone && internal && st == 403 && strings.Contains(body, "Extension.RegistrationClosed") {
				verifReach("registration-closed")
				continue // an internal extension that registers after initialisation finished is refused
			}
			if state == sNone {
				verifAssert(st == 200 && nid != "", "first registration with legal events is accepted and returns an identifier")
				verifAssert(strings.Contains(body, `"functionName":"fn"`) && strings.Contains(body, `"functionVersion":"$LATEST"`) && strings.Contains(body, `"handler":"app.handler"`), "registration data equals what the platform was initialised with")
				verifAssert(!strings.Contains(body, "accountId"), "account id only with the accountId feature")
				state, id = sRegistered, nid
				verifReach("registered")
			} else {
				verifAssert(st == 403 && (strings.Contains(body, "Extension.InvalidExtensionState") || strings.Contains(body, "Extension.RegistrationClosed")), "a second registration under the same name is refused with 403")
			}
		case 1: // register with an unknown event
			st, _, body := api.Register(name, []string{"INVOKE", "FOO"})
			if api.Dead() {
				return
			}
			verifAssert(st == 403, "registration with an event other than INVOKE/SHUTDOWN is refused")
			if state == sNone {
				verifAssert(strings.Contains(body, "Extension.InvalidEventType"), "unknown event => Extension.InvalidEventType")
			}
		case 2: // register for SHUTDOWN (external only)
			st, nid, body := api.Register(name, []string{"SHUTDOWN"})
			if api.Dead() {
				return
			}
			switch {
			case internal:
				verifAssert(st == 403, "an internal extension may not subscribe to SHUTDOWN")
				if state == sNone {
					verifAssert(strings.Contains(body, "Extension.InvalidEventType"), "SHUTDOWN for an internal extension => Extension.InvalidEventType")
				}
			case state == sNone:
				verifAssert(st == 200 && nid != "", "an external extension may subscribe to SHUTDOWN")
				state, id = sRegistered, nid
			default:
				verifAssert(st == 403, "a second registration is refused")
			}
		case 3: // next
			if state == sNone {
				continue // no identifier yet (covered by cases 6/7)
			}
			if final(state) {
				st, body := api.Next(id)
				verifAssert(st == 403 && strings.Contains(body, "Extension.InvalidExtensionState"), "next after a final error report is refused with 403")
				continue
			}
			if nexts >= 1 {
				continue // at most one parked next per script (two invocations are offered)
			}
			nexts++
			st, body := api.Next(id)
			if api.Dead() {
				return
			}
			verifAssert(st == 200, "next after register is answered with an event")
			verifAssert(strings.Contains(body, `"eventType":"INVOKE"`) || strings.Contains(body, `"eventType":"SHUTDOWN"`), "the event is INVOKE or SHUTDOWN")
			state = sRunning
			verifReach("event")
		case 4: // init/error
			if state == sNone {
				continue
			}
			st, body := api.InitError(id, "Extension.Boom")
			if api.Dead() {
				return
			}
			if state == sRegistered {
				verifAssert(st == 202, "init/error is accepted between register and the first next")
				state = sFinalInit
				verifReach("init-error")
			} else if state == sFinalInit {
				// the property text is silent on a repeated identical report; the code answers 202 and changes nothing
				verifAssert(st == 202 || st == 403, "a repeated init/error report changes nothing")
			} else {
				verifReach("init-error-refused")
				verifAssert(st == 403 && strings.Contains(body, "Extension.InvalidExtensionState"), "init/error after the first next or after a final report is refused with 403")
			}
		case 5: // exit/error
			if state == sNone {
				continue
			}
			st, body := api.ExitError(id, "Extension.Bye")
			if api.Dead() {
				return
			}
			if state == sRegistered || state == sRunning {
				verifAssert(st == 202, "exit/error is accepted any time after register")
				state = sFinalExit
				verifReach("exit-error")
			} else if state == sFinalExit {
				verifAssert(st == 202 || st == 403, "a repeated exit/error report changes nothing")
			} else {
				verifAssert(st == 403 && strings.Contains(body, "Extension.InvalidExtensionState"), "exit/error after a final report is refused with 403")
			}
		case 6: // unknown identifier
			st, body := api.Next("12345678-1234-4234-8234-123456789abc")
			verifAssert(st == 403 && strings.Contains(body, "Extension.UnknownExtensionIdentifier"), "an unknown identifier is refused with 403")
		case 7: // missing / malformed identifier
			st, body := api.Next("")
			verifAssert(st == 403 && strings.Contains(body, "Extension.MissingExtensionIdentifier"), "a missing identifier is refused with 403")
			st2, body2 := api.Next("not-a-uuid")
			verifAssert(st2 == 403 && strings.Contains(body2, "Extension.InvalidExtensionIdentifier"), "a malformed identifier is refused with 403")
		}
	}
}

func verifExternalScript(L int) {
	f := newVerifFull(1, []string{"I"}, nil, 3000)
	f.w.SetExtScript(func(base string, api *rapid.VerifExtAPI) {
		verifExtAutomaton(api, base, false, L)
	})
	for i := 0; i < 2; i++ {
		o := f.invoke()
		verifAssert(o.err == nil || o.err == ErrInvokeTimeout || o.err == ErrInvokeDoneFailed || o.err == ErrInitDoneFailed, "every invocation gets an outcome")
	}
	verifReach("script-done")
}

func verifInternalScript(L int) {
	f := newVerifFull(0, nil, nil, 3000)
	f.w.SetRuntimeScript(func(k int, api *rapid.VerifRuntimeAPI) bool {
		if k == 0 {
			verifSpawnEnv(func() { verifExtAutomaton(api.InternalExtAPI("internal0"), "internal0", true, L) })
		}
		return false // the runtime itself is healthy
	})
	for i := 0; i < 2; i++ {
		o := f.invoke()
		verifAssert(o.err == nil || o.err == ErrInvokeTimeout || o.err == ErrInvokeDoneFailed || o.err == ErrInitDoneFailed, "every invocation gets an outcome")
	}
	verifReach("script-done")
}

// two external extensions, each executing every script of L calls (interleaved)
func verifTwoExternalScripts(L int) {
	f := newVerifFull(2, []string{"I", "I"}, nil, 3000)
	f.w.SetExtScript(func(base string, api *rapid.VerifExtAPI) {
		verifExtAutomaton(api, base, false, L)
	})
	for i := 0; i < 2; i++ {
		o := f.invoke()
		verifAssert(o.err == nil || o.err == ErrInvokeTimeout || o.err == ErrInvokeDoneFailed || o.err == ErrInitDoneFailed, "every invocation gets an outcome")
	}
	verifReach("script-done")
}
func VerifC13TwoExternal2() { verifTwoExternalScripts(2) }

func VerifC13External3() { verifExternalScript(3) }
func VerifC13External4() { verifExternalScript(4) }
func VerifC13Internal3() { verifInternalScript(3) }
func VerifC13Internal4() { verifInternalScript(4) }

// An exit/error report is final even while another request of the same extension is parked in
// next: once the platform releases it, that next must be refused (403), not answered with an event.
func VerifC13ExitWhileParked() {
	f := newVerifFull(1, []string{"I"}, nil, 3000)
	parkedStatus := 0
	exitReported, gaveUp := false, false
	f.w.SetExtScript(func(base string, api *rapid.VerifExtAPI) {
		defer func() { gaveUp = true }()
		st, id, _ := api.Register(base, []string{"INVOKE"})
		if st != 200 {
			return
		}
		st1, _ := api.Next(id) // first event
		if st1 != 200 || api.Dead() {
			return
		}
		verifSpawnEnv(func() { // second connection: parks in next
			s, _ := api.Next(id)
			parkedStatus = s
		})
		// wait until the second next has been issued and the first invocation is complete
		verifWaitUntil(func() bool {
			return f.w.Count("caller", "invoke-end", "") >= 1 && f.w.Count("extension-ext0-1", "next-issued", "") >= 2
		})
		st2, _ := api.ExitError(id, "Extension.Bye")
		verifAssert(st2 == 202, "exit/error is accepted while another request is parked in next")
		exitReported = true
		verifReach("exit-reported")
	})
	f.invoke()
	verifWaitUntil(func() bool { return exitReported || gaveUp })
	f.invoke() // releases the parked next of every INVOKE subscriber
	verifSettle()
	if parkedStatus != 0 {
		verifReach("parked-next-answered")
		verifAssert(parkedStatus == 403, "a next parked before the exit/error report is refused once released, the report is final")
	}
}

// Identifiers of an earlier generation are unknown identifiers: after a reset, requests that still
// carry the identifier an external or an internal extension of the previous generation was given
// are refused with 403 (next, init/error, exit/error), whatever state the new generation is in,
// and do not touch its barriers (the invocation in progress completes normally).
func VerifC13StaleIdentifier() {
	f := newVerifFull(1, []string{"I"}, nil, 3000)
	w := f.w
	w.SetRuntimeScript(func(k int, api *rapid.VerifRuntimeAPI) bool {
		// every runtime generation hosts an internal extension
		ia := api.InternalExtAPI("internal0")
		verifSpawnEnv(func() {
			st, id, _ := ia.Register("internal0", []string{"INVOKE"})
			for i := 0; st == 200 && i < 4 && !api.Dead(); i++ {
				if s2, _ := ia.Next(id); s2 != 200 {
					return
				}
			}
		})
		return false // the runtime itself is healthy
	})
	o := f.invoke()
	verifAssert(o.err == nil, "first generation: healthy invocation")
	old := append([]string(nil), w.ExtIDs()...)
	// (the internal extension may have come too late to register: registration closes when the
	// first invocation is delivered)
	verifAssert(len(old) >= 1 && len(old) <= 2, "the external (and usually the internal) extension registered")
	if len(old) == 2 {
		verifReach("both-kinds")
	}
	f.s.Reset("ReleaseFail", 2000)
	verifSettle()
	base := w.CountWhat("got-invoke")
	which := verifChoice(len(old), "whose old identifier")
	kind := verifChoice(3, "stale request")
	phase := verifChoice(2, "when")
	verifSpawnEnv(func() {
		if phase == 1 {
			verifWaitUntil(func() bool { return w.CountWhat("got-invoke") > base })
		} else {
			verifWaitUntil(func() bool { return w.CountWhat("invoke-begin") > 1 })
		}
		var st int
		switch kind {
		case 0:
			st = w.StaleExtNext(old[which])
		case 1:
			st = w.StaleExtExitError(old[which])
		default:
			st = w.StaleExtInitError(old[which])
		}
		verifAssert(st == 403, "a request carrying an identifier of an earlier generation is refused with 403")
		verifReach("stale-refused")
	})
	o2 := f.invoke()
	verifAssert(o2.err == nil, "the invocation of the new generation completes normally")
	rs := w.RuntimeResponses()
	verifAssert(o2.wr.writes == 1 && string(o2.wr.body) == rs[len(rs)-1], "and returns its own response")
	verifSettle()
	w.CheckEventGrammar()
	verifReach("done")
}

// the same for an INTERNAL extension (registered from inside the runtime process)
func VerifC13ExitWhileParkedInternal() {
	f := newVerifFull(0, nil, nil, 3000)
	parkedStatus := 0
	exitReported, gaveUp := false, false
	f.w.SetRuntimeScript(func(k int, rapi *rapid.VerifRuntimeAPI) bool {
		if k != 0 {
			return false
		}
		api := rapi.InternalExtAPI("internal0")
		verifSpawnEnv(func() {
			defer func() { gaveUp = true }()
			st, id, _ := api.Register("internal0", []string{"INVOKE"})
			if st != 200 {
				return
			}
			st1, _ := api.Next(id) // first event
			if st1 != 200 || rapi.Dead() {
				return
			}
			verifSpawnEnv(func() { // second connection: parks in next
				s, _ := api.Next(id)
				parkedStatus = s
			})
			verifWaitUntil(func() bool {
				return f.w.Count("caller", "invoke-end", "") >= 1 && f.w.Count("internal:internal0", "next-issued", "") >= 2
			})
			st2, _ := api.ExitError(id, "Extension.Bye")
			verifAssert(st2 == 202, "exit/error is accepted while another request is parked in next (internal)")
			exitReported = true
			verifReach("exit-reported")
		})
		return false // the runtime itself is healthy
	})
	f.invoke()
	verifWaitUntil(func() bool { return exitReported || gaveUp })
	f.invoke()
	verifSettle()
	if parkedStatus != 0 {
		verifReach("parked-next-answered")
		verifAssert(parkedStatus == 403, "a next parked before the exit/error report is refused once released, the report is final (internal)")
	}
}
