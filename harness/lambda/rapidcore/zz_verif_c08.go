//go:build verif

package rapidcore

import (
	"fmt"
	"strings"

	"go.amzn.com/lambda/rapid"
)

// C08: a reset leaves no trace of earlier generations. Differential harness on the FULL
// composition: the SUBJECT instance goes through a prefix (healthy invocation, runtime exit,
// timeout, init error followed by an exit, response-then-exit, init crash followed by a timeout)
// that ends with a reset; the REFERENCE instance is a freshly started one that is reset at once.
// Both then run the same suffix (healthy / exit / stall / function error, then a healthy
// invocation). Compared: (1) the per-generation state right after the reset (registrations,
// barriers, recorded errors, runtime identity, cached error response, reservation), (2) for the
// suffix the caller outcomes, the platform event sequence, what the runtime and the extension
// see, and the supervisor requests per process -- with generation numbers removed and request ids
// replaced by their order of appearance.

func verifC08Plan(prefix int) [][]int {
	switch prefix {
	case 0:
		return [][]int{{rapid.VbRespond}}
	case 1:
		return [][]int{{rapid.VbExit}}
	case 2:
		return [][]int{{rapid.VbStall}}
	case 3:
		return [][]int{{rapid.VbInitError}, {rapid.VbExit}}
	case 4:
		return [][]int{{rapid.VbRespondExit}}
	case 6:
		return [][]int{{rapid.VbStall}}
	default:
		return [][]int{{rapid.VbExitEarly}, {rapid.VbStall}}
	}
}

func verifC08SuffixPlan(suffix int) ([]int, [][]int) {
	var b []int
	switch suffix {
	case 0:
		b = []int{rapid.VbRespond, rapid.VbRespond}
	case 1:
		b = []int{rapid.VbExit, rapid.VbRespond}
	case 2:
		b = []int{rapid.VbStall, rapid.VbRespond}
	default:
		b = []int{rapid.VbError, rapid.VbRespond}
	}
	var plan [][]int
	cur := []int{}
	for _, x := range b {
		cur = append(cur, x)
		if x == rapid.VbStall || x == rapid.VbExit {
			plan = append(plan, cur)
			cur = []int{}
		}
	}
	plan = append(plan, cur)
	return b, plan
}

func (f *verifFullStack) serverLeftover() string {
	s := f.s
	// (not compared: s.invoker, which every Reserve overwrites before it is used, and
	// s.runtimeState, which no decision reads)
	return fmt.Sprintf("cachedInitError=%v invokeCtx=%v phase=%d pendingDone=%d", s.cachedInitErrorResponse != nil, s.invokeCtx != nil, s.rapidPhase, len(s.InvokeDoneChan))
}

// runs the suffix and returns the observations
func (f *verifFullStack) c08Suffix(behaviours []int, keys []string) []string {
	w := f.w
	from := w.Seq() + 1
	var obs []string
	for _, b := range behaviours {
		delivered := len(w.RuntimeResponses())
		o := f.invoke()
		es := "nil"
		if o.err != nil {
			es = o.err.Error()
		}
		own := false
		if (b == rapid.VbRespond || b == rapid.VbError) && len(w.RuntimeResponses()) > delivered && o.wr.writes > 0 {
			if string(o.wr.body) == w.RuntimeResponses()[delivered] {
				own = true
			}
		}
		// a body that is not the runtime's is platform-made: its error type
		platformBody := ""
		if !own && o.wr.writes > 0 {
			body := string(o.wr.body)
			for _, t := range []string{"Runtime.ExitError", "Runtime.InitBoom", "Runtime.Unknown", "Sandbox.Timedout", "Sandbox.Failure", "Extension."} {
				if strings.Contains(body, `"errorType":"`+t) {
					platformBody += t + ","
				}
			}
			if body == "" {
				platformBody = "empty"
			}
		}
		obs = append(obs, fmt.Sprintf("outcome err=%s writes=%d ownBody=%v platformBody=%s", es, o.wr.writes, own, platformBody))
	}
	verifSettle()
	for _, k := range keys {
		for _, e := range w.Projection(from, k) {
			obs = append(obs, k+": "+e)
		}
	}
	return obs
}

func verifC08(nExt int, settled bool) {
	var subs []string
	keys := []string{"caller", "platform"}
	if nExt > 0 {
		subs = []string{"IS"}
	}
	if settled {
		keys = append(keys, "runtime", "supervisor/runtime")
		if nExt > 0 {
			keys = append(keys, "extension-ext0", "supervisor/extension-ext0")
		}
	}
	nPrefix := 6
	if nExt > 0 {
		nPrefix = 7 // 6: timeout; the extension answers SHUTDOWN with an exit/error report and exits
	}
	prefix := verifChoice(nPrefix, "prefix scenario")
	suffix := verifChoice(4, "suffix scenario")
	sb, sp := verifC08SuffixPlan(suffix)

	// reference: fresh instance, reset at once
	ref := newVerifFull(nExt, subs, nil, 3000)
	verifSettle()
	ref.s.Reset("ReleaseFail", 2000)
	verifSettle()
	ref.w.SetPlanNext(sp)
	refLeft := ref.w.Leftover() + " " + ref.serverLeftover()
	refObs := ref.c08Suffix(sb, keys)

	// subject: prefix ending in a reset
	f := newVerifFull(nExt, subs, verifC08Plan(prefix), 3000)
	if !settled {
		f.w.SetLateExitPhase(1 + verifChoice(3, "when the late exit notification is handled"))
	}
	if prefix == 6 {
		f.w.SetExtReportsOnShutdown(true)
	}
	o := f.invoke()
	if o.err == nil {
		// nothing has reset the environment yet
		f.s.Reset("ReleaseFail", 2000)
	}
	switch prefix {
	case 0:
		verifAssert(o.err == nil, "prefix: healthy invocation")
	}
	switch {
	case !settled:
		// (with a late notification the prefix's own reset may outlast its function timeout)
	case prefix == 0:
	case prefix == 1:
		verifAssert(o.err == ErrInvokeDoneFailed, fmt.Sprintf("prefix: failure outcome %v", o.err))
	case prefix == 2:
		verifAssert(o.err == ErrInvokeTimeout, "prefix: timeout outcome")
	}
	verifReach(fmt.Sprintf("prefix-%d", prefix))
	if settled {
		verifSettle()
		left := f.w.Leftover() + " " + f.serverLeftover()
		verifAssert(left == refLeft, "after a reset the per-generation state equals that of a freshly started and reset instance: "+verifFieldDiff(left, refLeft))
	}
	if !settled {
		// only the reservation has to be free again
		verifWaitUntil(func() bool { return f.s.invokeCtx == nil })
	}
	f.w.SetPlanNext(sp)
	f.w.SetLateExitPhase(0) // only notifications about the prefix's processes are late
	if ids := f.w.ExtIDs(); settled && len(ids) > 0 {
		// a request that still carries the identifier of the old generation's extension arrives
		// while the suffix's first invocation is with its runtime: it is refused like an
		// identifier nobody ever had, and changes nothing
		old := ids[0]
		gots := f.w.Count("", "got-invoke", "") + f.w.CountWhat("got-invoke")
		_ = gots
		base := f.w.CountWhat("got-invoke")
		kind := verifChoice(2, "stale request")
		verifSpawnEnv(func() {
			verifWaitUntil(func() bool { return f.w.CountWhat("got-invoke") > base })
			var st int
			if kind == 0 {
				st = f.w.StaleExtNext(old)
			} else {
				st = f.w.StaleExtExitError(old)
			}
			verifAssert(st == 403, "a request with an identifier of an earlier generation is refused (403) like an unknown one")
			verifReach("stale-identifier")
		})
	}
	obs := f.c08Suffix(sb, keys)
	same := len(obs) == len(refObs)
	diff := ""
	for i := 0; same && i < len(obs); i++ {
		if obs[i] != refObs[i] {
			same = false
			diff = obs[i] + " VS " + refObs[i]
		}
	}
	if diff == "" && !same {
		diff = fmt.Sprintf("%d VS %d observations", len(obs), len(refObs))
	}
	verifAssert(same, "after a reset every later observation equals that of a fresh instance (modulo generation numbers and request ids): "+diff)
	verifReach(fmt.Sprintf("suffix-%d", suffix))
	verifReach("done")
}

// quiescent hand-over: everything of the old generation has been processed before the suffix
func VerifC08Settled()    { verifC08(0, true) }
func VerifC08SettledExt() { verifC08(1, true) }

// the suffix starts immediately: exit notifications of the old generation are handled late,
// in every order the delay bound allows
func VerifC08Late()    { verifC08(0, false) }
func VerifC08LateExt() { verifC08(1, false) }

func verifFieldDiff(a, b string) string {
	x, y := strings.Split(a, " "), strings.Split(b, " ")
	out := ""
	for i := 0; i < len(x) && i < len(y); i++ {
		if x[i] != y[i] {
			out += x[i] + " VS " + y[i] + "; "
		}
	}
	return out
}

// A party that exists only in a LATER generation: an internal extension that registers from
// inside the runtime and asks for its first event BEFORE the runtime's first next. On a freshly
// started instance this initialisation completes (reference); after a generation without any
// extension and a reset it must complete just the same (barrier counts of the old generation
// must not survive the reset).
func verifC08InternalFirst(afterReset bool) {
	f := newVerifFull(0, nil, nil, 3000)
	w := f.w
	internalGen := 0
	if afterReset {
		internalGen = 1
	}
	w.SetRuntimeScript(func(k int, api *rapid.VerifRuntimeAPI) bool {
		if k != internalGen {
			return false // plain healthy runtime
		}
		ia := api.InternalExtAPI("internal0")
		asked := false
		verifSpawnEnv(func() {
			st, id, _ := ia.Register("internal0", []string{"INVOKE"})
			verifAssert(st == 200, "the internal extension of the new generation registers")
			asked = true
			for i := 0; st == 200 && i < 4 && !api.Dead(); i++ {
				if s2, _ := ia.Next(id); s2 != 200 {
					verifAssert(api.Dead(), "the internal extension's next is answered with an event")
					return
				}
			}
		})
		// the runtime asks for its first invocation only when the extension has already asked
		verifWaitUntil(func() bool { return (asked && w.Count("internal:internal0", "next-issued", "") > 0) || api.Dead() })
		verifReach("internal-first")
		return false
	})
	if afterReset {
		o := f.invoke()
		verifAssert(o.err == nil, "first generation (no extension): healthy invocation")
		f.s.Reset("ReleaseFail", 2000)
		verifSettle()
	}
	o := f.invoke()
	verifAssert(o.err == nil, "an initialisation in which an internal extension asks for its first event before the runtime completes, and the invocation is served")
	rs := w.RuntimeResponses()
	verifAssert(o.wr.writes == 1 && len(rs) > 0 && string(o.wr.body) == rs[len(rs)-1], "the invocation returns its own response")
	verifReach("done")
}
func VerifC08InternalFirstFresh()      { verifC08InternalFirst(false) }
func VerifC08InternalFirstAfterReset() { verifC08InternalFirst(true) }
