//go:build verif

package fatalerror

import (
	"bytes"
	"encoding/base64"
	"encoding/json"
	"errors"
	"fmt"
	"io"
	"net/http"
	"strconv"
	"strings"
)

// Translator self-test: concrete vectors through the interpreter and the intrinsic contracts.
// selftestVectors is executed by the engine (SSA interpretation + intrinsics) and natively by
// the Go toolchain; both must produce selftestExpected (generated natively).

type selftestDoc struct {
	ErrorMessage string   `json:"errorMessage"`
	ErrorType    string   `json:"errorType,omitempty"`
	Stack        []string `json:"stackTrace"`
	N            int64    `json:"n"`
	skipped      int
}

type selftestIface interface{ Name() string }
type selftestA struct{ s string }
type selftestB int

func (a selftestA) Name() string  { return "A:" + a.s }
func (b *selftestB) Name() string { return "B:" + strconv.Itoa(int(*b)) }

func selftestDeferOrder() (out string) {
	defer func() {
		if r := recover(); r != nil {
			out += fmt.Sprint("recovered:", r)
		}
	}()
	for i := 0; i < 3; i++ {
		defer func(k int) { out += strconv.Itoa(k) }(i)
	}
	var m map[string]int
	m["x"] = 1 // panics: assignment to entry in nil map
	return "unreachable"
}

func selftestVectors() []string {
	var out []string
	add := func(format string, a ...interface{}) { out = append(out, fmt.Sprintf(format, a...)) }
	// integer semantics
	var i8 int8 = 127
	i8++
	var u8 uint8 = 3
	u8 -= 5
	var i32 int32 = -2147483648
	i32--
	var u16 uint16 = 65535
	u16 += 2
	x := int64(-7)
	add("%d %d %d %d", i8, u8, i32, u16)
	add("%d %d %d %d", x/2, x%2, x>>1, uint64(x)>>60)
	add("%d %d %d", int64(1)<<40, uint32(1)<<31, int32(-1)&0x7f)
	add("%d %d", 0x1234&^0x0ff0, 0xf0f0^0x0ff0|1)
	big := int64(1)<<33 + 5
	m8 := int8(-128)
	neg := int8(-1)
	add("%d %d", int32(big), m8/neg)
	// fmt
	add("%s|%q|%v|%5d|%-5d|%05d|%x|%X|%t|%c|%%", "a\"b", "a\"b\n", []int{1, 2}, 42, 42, 42, 255, 255, true, 'x')
	add("%v %+v %d %s", struct{ A, B int }{1, 2}, struct{ A, B int }{1, 2}, []int32{-1}, []string{"p", "q"})
	add("%v|%s|%v", errors.New("boom"), fmt.Errorf("wrap: %w", io.EOF), nil)
	add("%08.3f|%v|%6.2f", 3.14159, 2.5, 1.005)
	// strconv
	n, err := strconv.ParseInt("-9223372036854775808", 10, 64)
	add("%d %v", n, err)
	_, err = strconv.ParseInt("9223372036854775808", 10, 64)
	add("%v", err != nil)
	_, err = strconv.Atoi("12a")
	add("%v", err != nil)
	un, err := strconv.ParseUint("4294967295", 10, 32)
	add("%d %v", un, err)
	add("%s %s %s", strconv.Itoa(-45), strconv.FormatInt(255, 16), strconv.Quote("tab\there"))
	// strings
	add("%q", strings.Split("a,b,,c", ","))
	add("%q", strings.SplitN("k=v=w", "=", 2))
	add("%q", strings.Fields("  a  b\tc\n"))
	add("%d %d %d", strings.Index("chicken", "ken"), strings.LastIndex("go gopher", "go"), strings.IndexByte("abc", 'c'))
	add("%v %v %v %v", strings.HasPrefix("Runtime.X", "Runtime."), strings.HasSuffix("a.go", ".go"), strings.Contains("seafood", "foo"), strings.EqualFold("Go", "GO"))
	add("%s|%s|%s|%s", strings.TrimSpace("  x y  "), strings.ToLower("AbC"), strings.ToUpper("AbC"), strings.Repeat("ab", 3))
	add("%s|%s|%s", strings.Replace("oink oink oink", "k", "ky", 2), strings.ReplaceAll("oink oink", "oink", "moo"), strings.TrimPrefix("prefix-body", "prefix-"))
	add("%s|%s|%s", strings.Join([]string{"a", "b", "c"}, "-"), strings.TrimSuffix("a.go", ".go"), strings.Trim("xxhixx", "x"))
	add("%s|%d", strings.Title("hello"), strings.Count("cheese", "e"))
	s := "héllo"
	add("%d %d %s %s", len(s), len([]rune(s)), s[1:3], string([]byte(s)[:1]))
	// bytes
	var buf bytes.Buffer
	buf.WriteString("hello ")
	buf.Write([]byte("world"))
	buf.WriteByte('!')
	p := make([]byte, 4)
	k, _ := buf.Read(p)
	add("%d %s %s %d", k, p[:k], buf.String(), buf.Len())
	add("%v %v %d", bytes.Equal([]byte("a"), []byte("a")), bytes.HasPrefix([]byte("abc"), []byte("ab")), bytes.IndexByte([]byte("abc"), 'b'))
	rest, _ := io.ReadAll(io.LimitReader(strings.NewReader("0123456789"), 4))
	add("%s", rest)
	// slices, maps
	a := []int{1, 2, 3}
	b := append(a[:1], 9)
	add("%v %v %d %d", a, b, len(b), cap(a[1:]))
	c := make([]int, 2, 5)
	copy(c, a)
	add("%v", append(c, a...))
	m := map[string]int{"x": 1}
	m["y"] += 2
	delete(m, "x")
	_, ok := m["x"]
	add("%d %v %d", m["y"], ok, len(m))
	// json
	d := selftestDoc{ErrorMessage: "a \"quoted\" <msg>\n", Stack: []string{"f", "g"}, N: -5}
	jb, _ := json.Marshal(d)
	add("%s", jb)
	jb, _ = json.Marshal(map[string]interface{}{"b": 1, "a": []string{"x"}, "c": nil, "d": true})
	add("%s", jb)
	var back selftestDoc
	err = json.Unmarshal([]byte(`{"errorMessage":"m","errorType":"T","stackTrace":["s1"],"n":7,"extra":1}`), &back)
	add("%v %s %s %v %d", err, back.ErrorMessage, back.ErrorType, back.Stack, back.N)
	add("%v %v", json.Valid([]byte(`{"a":[1,2,{"b":null}]}`)), json.Valid([]byte(`{"a":}`)))
	// http.Header
	h := http.Header{}
	h.Set("lambda-runtime-function-error-type", "T")
	h.Add("X-Multi", "1")
	h.Add("x-multi", "2")
	add("%s|%s|%q|%q", h.Get("Lambda-Runtime-Function-Error-Type"), h.Get("X-MULTI"), h.Values("x-multi"), h.Get("missing"))
	// base64
	e := base64.StdEncoding.EncodeToString([]byte("client ctx \x00\xff"))
	dec, err := base64.StdEncoding.DecodeString(e)
	add("%s %v %v", e, bytes.Equal(dec, []byte("client ctx \x00\xff")), err)
	// interfaces, type switches, method values
	bb := selftestB(7)
	for _, it := range []interface{}{selftestA{"z"}, &bb, 3, "s", nil, errors.New("e")} {
		switch v := it.(type) {
		case selftestIface:
			add("iface %s", v.Name())
		case int:
			add("int %d", v+1)
		case string:
			add("string %s", v)
		case nil:
			add("nil")
		case error:
			add("error %v", v)
		}
	}
	f := selftestA{"m"}.Name
	add("%s", f())
	// defer / recover / panic order
	add("%s", selftestDeferOrder())
	// closures capture by reference
	cnt := 0
	inc := func() int { cnt++; return cnt }
	inc()
	inc()
	add("%d", cnt)
	// errors.Is / As
	var ft ErrorType = "Runtime.ExitError"
	add("%v %s", errors.Is(fmt.Errorf("x: %w", io.EOF), io.EOF), string(ft))
	return out
}

func VerifSelftest() {
	got := selftestVectors()
	verifAssert(len(got) == len(selftestExpected), fmt.Sprintf("selftest: %d vectors, expected %d", len(got), len(selftestExpected)))
	for i := 0; i < len(got) && i < len(selftestExpected); i++ {
		verifAssert(got[i] == selftestExpected[i], fmt.Sprintf("selftest vector %d: got %q want %q", i, got[i], selftestExpected[i]))
	}
	verifReach("selftest-done")
}
