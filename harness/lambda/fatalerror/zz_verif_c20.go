//go:build verif

package fatalerror

import "strings"

// C20.1: an error type reported by the runtime is passed on only if it has
// exactly the form Runtime.X / Function.X with X a capitalised word of letters;
// anything else becomes Function.Unknown (prefix "Function.") or Runtime.Unknown.
func VerifC20ErrorType() {
	s := verifNondetHeader("errorType")
	r := string(GetValidRuntimeOrFunctionErrorType(s))
	exact := verifFullMatch(`(Runtime|Function)\.[A-Z][a-zA-Z]+`, s)
	if exact {
		verifReach("exact")
		verifAssert(r == s, "well-formed error type is passed through unchanged")
	} else if strings.HasPrefix(s, "Function.") {
		verifReach("function-unknown")
		verifAssert(r == "Function.Unknown", "malformed type starting with Function. becomes Function.Unknown")
	} else {
		verifReach("runtime-unknown")
		verifAssert(r == "Runtime.Unknown", "malformed type becomes Runtime.Unknown")
	}
}
