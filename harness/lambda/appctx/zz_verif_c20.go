//go:build verif

package appctx

import (
	"net/http"
	"strings"
)

// C20.3: the runtime identity string derived from the user agent and the feature list never
// grows beyond 128 bytes through features and is fixed once features were appended.
// User agent and features header are symbolic strings (features: up to 3 whitespace-separated tokens).
func VerifC20RuntimeRelease() {
	// user agent: absent, or a token (possibly followed by more text); features: 0..3 tokens
	ua := ""
	switch verifChoice(3, "user agent shape") {
	case 1:
		ua = verifNondetToken("agent token")
	case 2:
		ua = verifNondetToken("agent token") + " (extra; text)"
	}
	features := ""
	nf := verifChoice(4, "number of features")
	for i := 0; i < nf; i++ {
		if i > 0 {
			features += " "
		}
		features += verifNondetToken("feature")
	}
	h := http.Header{}
	h.Set("User-Agent", ua)
	h.Set("Lambda-Runtime-Features", features)
	req := &http.Request{Header: h}
	agent := GetUserAgentFromRequest(req)
	rel := CreateRuntimeReleaseFromRequest(req, agent)
	base := agent
	if base == "" {
		base = "Unknown"
	}
	if rel == agent {
		verifReach("no-features")
	} else {
		verifReach("features-appended")
		verifAssert(strings.HasPrefix(rel, base+" (") && strings.HasSuffix(rel, ")"), "features are appended in brackets after the agent token")
		verifAssert(len(rel) <= MaxRuntimeReleaseLength, "the identity string never grows beyond 128 bytes through features")
	}
	verifAssert(len(rel) <= len(agent) || len(rel) <= MaxRuntimeReleaseLength, "the identity string is the agent or at most 128 bytes")
}

// once features were appended the stored value is fixed
func VerifC20RuntimeReleaseFixed() {
	appCtx := NewApplicationContext()
	h1 := http.Header{}
	h1.Set("User-Agent", "aws-lambda-go/1.2")
	h1.Set("Lambda-Runtime-Features", "httpcl/v2 otel")
	UpdateAppCtxWithRuntimeRelease(&http.Request{Header: h1}, appCtx)
	first := GetRuntimeRelease(appCtx)
	verifAssert(first == "aws-lambda-go/1.2 (httpcl/v2 otel)", "agent and features are combined")
	h2 := http.Header{}
	h2.Set("User-Agent", verifNondetToken("later User-Agent"))
	h2.Set("Lambda-Runtime-Features", verifNondetToken("later feature 1")+" "+verifNondetToken("later feature 2"))
	UpdateAppCtxWithRuntimeRelease(&http.Request{Header: h2}, appCtx)
	verifAssert(GetRuntimeRelease(appCtx) == first, "a stored value ending in the feature list is unchanged by later requests")
	verifReach("done")
}
