//go:build verif

package supervisor

import (
	"context"
	"errors"
	"os"
	"os/exec"
	"syscall"
	"time"

	"go.amzn.com/lambda/supervisor/model"
)

// C19: the real LocalSupervisor (Exec / Kill / Terminate and the Wait goroutine, from go/ssa)
// against a small model of the operating system's process table. The model replaces exactly the
// OS entry points the supervisor uses: exec.Command, (*exec.Cmd).Start/Wait,
// (*os.ProcessState).Sys, syscall.Getpgid, syscall.Kill. Wait statuses are the real Linux
// encodings (exit n = n<<8, signal s = s) and are decoded by the real syscall.WaitStatus methods.

const (
	vbDefault     = iota // TERM terminates it (signal 15)
	vbTrapsTerm          // TERM handler: exits with a code of its own
	vbIgnoresTerm        // TERM is ignored
)

type vProc struct {
	pid, pgid  int
	alive      bool
	reaped     bool
	status     syscall.WaitStatus
	behaviour  int
	trapCode   int
	unkillable bool // SIGKILL stays pending (uninterruptible sleep) for the whole run
	gotTerm    bool
	gotKill    bool
	isChild    bool
	forked     bool
	ps         *os.ProcessState
	name       string
}

type vOS struct {
	procs             []*vProc
	byCmd             map[*exec.Cmd]*vProc
	byPS              map[*os.ProcessState]*vProc
	nextPid           int
	ownGroupSignalled bool
	// what the next started process looks like
	nextBehaviour, nextTrapCode int
	nextUnkillable, nextForks   bool
}

func (o *vOS) die(p *vProc, st syscall.WaitStatus) {
	if !p.alive {
		return
	}
	p.alive = false
	p.status = st
}

func (o *vOS) deliver(p *vProc, sig syscall.Signal) {
	if !p.alive {
		return
	}
	switch sig {
	case syscall.SIGKILL:
		p.gotKill = true
		if !p.unkillable {
			o.die(p, syscall.WaitStatus(9))
		}
	case syscall.SIGTERM:
		p.gotTerm = true
		switch p.behaviour {
		case vbDefault:
			o.die(p, syscall.WaitStatus(15))
		case vbTrapsTerm:
			o.die(p, syscall.WaitStatus(uint32(p.trapCode)<<8))
		}
	}
}

func (o *vOS) find(pid int) *vProc {
	for _, p := range o.procs {
		if p.pid == pid && !p.reaped {
			return p
		}
	}
	return nil
}

func verifInstallOS() *vOS {
	o := &vOS{byCmd: map[*exec.Cmd]*vProc{}, byPS: map[*os.ProcessState]*vProc{}, nextPid: 100}
	verifStub("os/exec.Command", func(name string, arg ...string) *exec.Cmd {
		return &exec.Cmd{Path: name, Args: append([]string{name}, arg...)}
	})
	verifStub("(*os/exec.Cmd).Start", func(c *exec.Cmd) error {
		p := &vProc{pid: o.nextPid, alive: true, behaviour: o.nextBehaviour, trapCode: o.nextTrapCode, unkillable: o.nextUnkillable, ps: new(os.ProcessState)}
		o.nextPid += 10
		p.pgid = 1 // inherits the emulator's own process group ...
		if c.SysProcAttr != nil && c.SysProcAttr.Setpgid {
			p.pgid = p.pid // ... unless it was put in a group of its own
		}
		o.procs = append(o.procs, p)
		o.byCmd[c] = p
		o.byPS[p.ps] = p
		p.forked = o.nextForks
		if o.nextForks {
			// a forked child in the same group, a well-behaved one (SIGKILL works)
			ch := &vProc{pid: p.pid + 1, pgid: p.pgid, alive: true, behaviour: vbIgnoresTerm, isChild: true}
			o.procs = append(o.procs, ch)
		}
		c.Process = &os.Process{Pid: p.pid}
		return nil
	})
	verifStub("(*os/exec.Cmd).Wait", func(c *exec.Cmd) error {
		p := o.byCmd[c]
		verifWaitUntil(func() bool { return !p.alive })
		p.reaped = true
		if p.status == 0 {
			if c.WaitDelay > 0 && p.forked {
				// os/exec: with a WaitDelay, a successful exit whose output pipes are still held
				// open by a descendant makes Wait return ErrWaitDelay
				return errors.New("exec: WaitDelay expired before I/O complete")
			}
			return nil
		}
		return &exec.ExitError{ProcessState: p.ps}
	})
	verifStub("(*os.ProcessState).Sys", func(ps *os.ProcessState) interface{} {
		return o.byPS[ps].status
	})
	verifStub("syscall.Getpgid", func(pid int) (int, error) {
		if p := o.find(pid); p != nil {
			return p.pgid, nil
		}
		return -1, syscall.ESRCH
	})
	verifStub("syscall.Kill", func(pid int, sig syscall.Signal) error {
		hit := false
		if pid < 0 {
			if -pid == 1 {
				o.ownGroupSignalled = true
			}
			for _, p := range o.procs {
				if p.pgid == -pid && !p.reaped {
					o.deliver(p, sig)
					hit = true
				}
			}
		} else if p := o.find(pid); p != nil {
			o.deliver(p, sig)
			hit = true
		}
		if !hit {
			return syscall.ESRCH
		}
		return nil
	})
	return o
}

type vTruth struct {
	name    string
	p       *vProc
	started bool
}

// verifC19World: nProc processes with symbolic behaviour, an events collector, and natural ends.
func verifC19(nProc, nOps int, symStatus bool) {
	o := verifInstallOS()
	s := NewLocalSupervisor()
	var events []model.Event
	evCh, _ := s.Events(context.Background(), nil)
	verifDaemon("verifC19")
	verifSpawnEnv(func() {
		for {
			ev := <-evCh
			events = append(events, ev)
		}
	})
	names := []string{"runtime-1", "extension-a-1", "extension-b-1"}
	truth := make([]*vTruth, nProc)
	for i := 0; i < nProc; i++ {
		o.nextTrapCode = 143
		profile := -1
		if nProc > 1 {
			// several processes at once: each takes one of four profiles
			profile = verifChoice(4, "process profile")
			o.nextBehaviour = []int{vbDefault, vbIgnoresTerm, vbDefault, vbTrapsTerm}[profile]
			o.nextForks = profile == 1
			o.nextUnkillable = profile == 3
		} else {
			o.nextBehaviour = verifChoice(3, "reaction to SIGTERM")
		}
		if profile >= 0 {
		} else if symStatus {
			o.nextTrapCode = verifNondetInt("exit code of the TERM handler")
			verifAssume(o.nextTrapCode >= 0 && o.nextTrapCode <= 255)
			o.nextUnkillable, o.nextForks = false, false
		} else {
			o.nextUnkillable = verifChoice(2, "SIGKILL stays pending") == 1
			o.nextForks = verifChoice(2, "forks a child into its group") == 1
		}
		req := &model.ExecRequest{Domain: "runtime", Name: names[i], Path: "/bin/proc"}
		err := s.Exec(context.Background(), req)
		verifAssert(err == nil, "Exec of a startable process succeeds")
		p := o.procs[len(o.procs)-1]
		if o.nextForks {
			p = o.procs[len(o.procs)-2]
		}
		p.name = names[i]
		truth[i] = &vTruth{name: names[i], p: p, started: true}
		// its natural life: runs on, exits with some code, or is killed by some signal
		life := 0
		if profile == 2 {
			life = 1
		} else if profile < 0 {
			life = verifChoice(3, "natural end")
		}
		code, signo := 0, 11
		if symStatus {
			code = verifNondetInt("natural exit code")
			verifAssume(code >= 0 && code <= 255)
			signo = verifNondetInt("natural terminating signal")
			verifAssume(signo >= 1 && signo <= 31)
		} else if profile == 2 {
			code = 1
		} else if life == 1 {
			code = []int{0, 1, 200}[verifChoice(3, "natural exit code")]
		}
		pp := p
		if life != 0 {
			verifSpawnEnv(func() {
				verifYield()
				if life == 1 {
					o.die(pp, syscall.WaitStatus(uint32(code)<<8))
				} else {
					o.die(pp, syscall.WaitStatus(uint32(signo)))
				}
			})
		}
	}
	groupGone := func(p *vProc) bool {
		for _, q := range o.procs {
			if q.pgid == p.pgid && q.alive && !q.unkillable {
				return false
			}
		}
		return true
	}
	observedExit := func(name string) bool {
		s.processMapLock.Lock()
		pr := s.processMap[name]
		s.processMapLock.Unlock()
		select {
		case <-pr.termination:
			return true
		default:
			return false
		}
	}
	for k := 0; k < nOps; k++ {
		op := verifChoice(5, "supervisor request")
		i := 0
		if nProc > 1 {
			i = verifChoice(nProc, "target process")
		}
		t := truth[i]
		switch op {
		case 0: // Kill with a future deadline
			wasDead := !t.p.alive
			err := s.Kill(context.Background(), &model.KillRequest{Domain: "runtime", Name: t.name, Deadline: time.Now().Add(time.Second)})
			if err == nil {
				verifReach("kill-ok")
				verifAssert(!t.p.alive, "Kill returns success only once the process has terminated")
				if t.p.gotKill {
					// the main process was alive when SIGKILL was sent (otherwise this is the
					// "already exited" case, which promises nothing about the group)
					verifReach("kill-group")
					verifAssert(groupGone(t.p), "Kill takes the whole process group with it")
				}
			} else {
				verifReach("kill-timeout")
				verifAssert(t.p.alive, "Kill fails only if the process outlives the deadline")
				verifAssert(t.p.unkillable, "only a process that resists SIGKILL outlives the deadline")
			}
			if wasDead {
				verifReach("kill-already-exited")
				verifAssert(err == nil, "Kill succeeds for a process that already exited")
			}
			_ = observedExit
		case 1: // Kill with a deadline in the past
			wasDead := observedExit(t.name) // the supervisor has seen the exit
			err := s.Kill(context.Background(), &model.KillRequest{Domain: "runtime", Name: t.name, Deadline: time.Now().Add(-time.Second)})
			if !wasDead && t.p.alive {
				verifReach("kill-past-deadline")
				verifAssert(err != nil, "Kill fails with an error for past deadlines")
			}
			if err == nil {
				verifAssert(!t.p.alive, "Kill with a past deadline succeeds only for a process that has already terminated")
			}
			if wasDead {
				verifAssert(err == nil, "Kill succeeds for a process that already exited (past deadline)")
			}
		case 2: // Kill for an unknown name
			err := s.Kill(context.Background(), &model.KillRequest{Domain: "runtime", Name: "nobody", Deadline: time.Now().Add(time.Second)})
			verifAssert(err != nil, "Kill fails with an error for unknown names")
			verifReach("kill-unknown")
		case 3: // Terminate
			wasAlive := t.p.alive
			err := s.Terminate(context.Background(), &model.TerminateRequest{Domain: "runtime", Name: t.name})
			verifAssert(err == nil, "Terminate of a known process succeeds")
			if wasAlive && t.p.gotTerm {
				verifReach("terminate")
				for _, q := range o.procs {
					if q.pgid == t.p.pgid && q.alive {
						verifAssert(q.gotTerm, "Terminate delivers SIGTERM to every live member of the group")
					}
				}
				if t.p.behaviour == vbIgnoresTerm && t.p.alive {
					verifReach("terminate-does-not-wait")
				}
			}
		case 4: // Terminate for an unknown name
			err := s.Terminate(context.Background(), &model.TerminateRequest{Domain: "runtime", Name: "nobody"})
			verifAssert(err != nil, "Terminate fails for unknown names")
		}
		verifAssert(!o.ownGroupSignalled, "the supervisor never signals the emulator's own process group")
	}
	verifSettle()
	for _, t := range truth {
		n := 0
		var got model.Event
		for _, ev := range events {
			if ev.Event.Name != nil && *ev.Event.Name == t.name {
				n++
				got = ev
			}
		}
		if t.p.alive {
			verifAssert(n == 0, "no termination event for a process that is still running")
			continue
		}
		verifReach("terminated")
		verifAssert(n == 1, "exactly one termination event per terminated process")
		st := t.p.status
		if uint32(st)&0x7f == 0 {
			verifReach("event-exit-status")
			verifAssert(got.Event.Signo == nil && got.Event.ExitStatus != nil && *got.Event.ExitStatus == int32(uint32(st)>>8), "the event carries the true exit status")
		} else {
			verifReach("event-signal")
			verifAssert(got.Event.ExitStatus == nil && got.Event.Signo != nil && *got.Event.Signo == int32(uint32(st)&0x7f), "the event carries the true terminating signal")
		}
	}
	verifReach("done")
}

// exit statuses / signals / trap codes symbolic (every value), one request
func VerifC19Status1() { verifC19(1, 1, true) }
func VerifC19Status2() { verifC19(1, 2, true) }

// request sequences and races, representative statuses
func VerifC19One2() { verifC19(1, 2, false) }
func VerifC19One3() { verifC19(1, 3, false) }
func VerifC19Two2() { verifC19(2, 2, false) }
func VerifC19Two3() { verifC19(2, 3, false) }
func VerifC19Two1() { verifC19(2, 1, false) }

// Requests on different processes do not wait for each other: while a Kill of a process that
// resists SIGKILL is blocked until its deadline, Terminate and Kill of another process complete
// at once.
func VerifC19Concurrent() {
	o := verifInstallOS()
	s := NewLocalSupervisor()
	evCh, _ := s.Events(context.Background(), nil)
	verifDaemon("VerifC19Concurrent")
	verifDaemon("Exec$1") // the Wait goroutine of a process that never ends
	verifSpawnEnv(func() {
		for {
			<-evCh
		}
	})
	o.nextUnkillable = true
	verifAssert(s.Exec(context.Background(), &model.ExecRequest{Domain: "runtime", Name: "stuck-1", Path: "/bin/proc"}) == nil, "exec")
	a := o.procs[0]
	o.nextUnkillable = false
	o.nextBehaviour = verifChoice(3, "reaction to SIGTERM")
	verifAssert(s.Exec(context.Background(), &model.ExecRequest{Domain: "runtime", Name: "other-1", Path: "/bin/proc"}) == nil, "exec")
	b := o.procs[1]
	t0 := time.Now()
	var killErr error
	killDone := false
	verifSpawn(func() {
		killErr = s.Kill(context.Background(), &model.KillRequest{Domain: "runtime", Name: "stuck-1", Deadline: t0.Add(time.Second)})
		killDone = true
	})
	verifWaitUntil(func() bool { return a.gotKill })
	if verifChoice(2, "request on the other process") == 0 {
		err := s.Terminate(context.Background(), &model.TerminateRequest{Domain: "runtime", Name: "other-1"})
		verifAssert(err == nil && b.gotTerm, "Terminate reaches the other process")
		verifReach("terminate-while-kill-blocked")
	} else {
		err := s.Kill(context.Background(), &model.KillRequest{Domain: "runtime", Name: "other-1", Deadline: time.Now().Add(time.Second)})
		verifAssert(err == nil && !b.alive, "Kill of the other process succeeds")
		verifReach("kill-while-kill-blocked")
	}
	verifAssert(!killDone && time.Since(t0) < time.Second/2, "a request on another process does not wait for a blocked Kill")
	verifWaitUntil(func() bool { return killDone })
	verifAssert(killErr != nil, "the Kill of the resisting process fails at its deadline")
	verifReach("done")
}

// The termination event does not depend on the context of the Exec request or on a reader being
// parked at the moment of exit: several processes are started with request-scoped contexts that
// are cancelled as soon as Exec returns, they all exit, and only then the consumer starts reading:
// exactly one event per process.
func VerifC19EventsAfterContextDone() {
	o := verifInstallOS()
	s := NewLocalSupervisor()
	verifDaemon("Exec$1")
	n := 2
	names := []string{"runtime-1", "extension-a-1"}
	for i := 0; i < n; i++ {
		ctx, cancel := context.WithCancel(context.Background())
		verifAssert(s.Exec(ctx, &model.ExecRequest{Domain: "runtime", Name: names[i], Path: "/bin/proc"}) == nil, "exec")
		cancel()
	}
	for i := 0; i < n; i++ {
		o.die(o.procs[i], syscall.WaitStatus(uint32(i)<<8))
	}
	verifSettle() // every Wait goroutine has noticed the exit; nobody is reading yet
	evCh, _ := s.Events(context.Background(), nil)
	seen := map[string]int{}
	for i := 0; i < n; i++ {
		ev := <-evCh
		seen[*ev.Event.Name]++
	}
	for i := 0; i < n; i++ {
		verifAssert(seen[names[i]] == 1, "exactly one termination event per process, whatever happened to the context of its Exec request")
	}
	verifReach("done")
}
