//go:build verif

package main

import (
	"bytes"
	"encoding/base64"
	"fmt"
	"io"
	"net/http"
	"net/url"
	"strings"

	"go.amzn.com/lambda/interop"
	"go.amzn.com/lambda/rapidcore"
)

// The HTTP front end of the emulator (cmd/aws-lambda-rie InvokeHandler) against a stub sandbox:
// what it hands to the interop server and how it maps every outcome back to the HTTP caller.

type verifFrontSandbox struct {
	invokes  []*interop.Invoke
	payloads []string
	// behaviour of the next Invoke
	err      error
	writes   int
	status   int
	respBody []byte
}

func (s *verifFrontSandbox) Init(i *interop.Init, invokeTimeoutMs int64) {}
func (s *verifFrontSandbox) Invoke(w http.ResponseWriter, inv *interop.Invoke) error {
	s.invokes = append(s.invokes, inv)
	b, _ := io.ReadAll(inv.Payload)
	s.payloads = append(s.payloads, string(b))
	if s.writes > 0 {
		if s.status != 0 {
			w.WriteHeader(s.status)
		}
		w.Write(s.respBody)
	}
	return s.err
}

type verifFrontRW struct {
	hdr    http.Header
	status int
	body   []byte
	writes int
}

func (w *verifFrontRW) Header() http.Header { return w.hdr }
func (w *verifFrontRW) Write(p []byte) (int, error) {
	w.body = append(w.body, p...)
	w.writes++
	return len(p), nil
}
func (w *verifFrontRW) WriteHeader(s int) {
	if w.status == 0 {
		w.status = s
	}
}

func verifFrontCall(sb *verifFrontSandbox, body []byte, ctxHeader string) *verifFrontRW {
	h := http.Header{}
	if ctxHeader != "" {
		h.Set("X-Amz-Client-Context", ctxHeader)
	}
	h.Set("X-Amzn-Trace-Id", "Root=1-5bef4de7-ad49b0e87f6ef6c87fc2e700")
	r := &http.Request{Method: "POST", URL: &url.URL{Path: "/2015-03-31/functions/function/invocations"}, Header: h, Body: io.NopCloser(bytes.NewReader(body))}
	w := &verifFrontRW{hdr: http.Header{}}
	InvokeHandler(w, r, sb, nil)
	return w
}

var verifFrontErrs = []error{nil, rapidcore.ErrInvokeTimeout, rapidcore.ErrInvokeDoneFailed, rapidcore.ErrInitDoneFailed, rapidcore.ErrAlreadyReserved,
	rapidcore.ErrInternalServerError, rapidcore.ErrReserveReservationDone, rapidcore.ErrInvokeReservationDone, rapidcore.ErrReleaseReservationDone,
	rapidcore.ErrInvokeResponseAlreadyWritten, rapidcore.ErrAlreadyInvocating}

// C01 (front end): event bytes, decoded client context, fresh request id, ARN; C05/C06 (front
// end): exactly one outcome per invocation -- the response, OR the timeout text, OR the platform
// error body with a failure status -- for every outcome of the interop server and whatever
// the runtime had already written into the response buffer.
func VerifFrontEnd() {
	initDone = true // initialisation is the subject of other harnesses
	verifSetenv("AWS_LAMBDA_FUNCTION_TIMEOUT", "3")
	sb := &verifFrontSandbox{}
	ids := map[string]bool{}
	for k := 0; k < 1; k++ {
		event := verifNondetPayload("event payload")
		// client context: arbitrary bytes (round trip through the standard encoding), or concrete
		// documents whose encodings use the characters that differ between base64 alphabets
		var ctx string
		switch verifChoice(4, "client context") {
		case 0:
			ctx = ""
		case 1:
			ctx = string(verifNondetBytes("client context"))
		case 2:
			ctx = `{"custom":{"url":"https://a/b?c=~~>"}}`
		case 3:
			ctx = "\xfb\xff\xbe?>~"
		}
		hdr := ""
		if ctx != "" {
			hdr = base64.StdEncoding.EncodeToString([]byte(ctx))
		}
		sb.err = verifFrontErrs[verifChoice(len(verifFrontErrs), "outcome of the interop server")]
		sb.writes = verifChoice(2, "runtime wrote into the response buffer")
		sb.status = []int{0, 200, 502}[verifChoice(3, "status set by the interop server")]
		sb.respBody = verifNondetPayload("buffered response")
		before := len(sb.invokes)
		w := verifFrontCall(sb, event, hdr)
		verifAssert(len(sb.invokes) == before+1, fmt.Sprintf("every posted event is handed to the interop server exactly once (status %d, %d invokes)", w.status, len(sb.invokes)-before))
		inv := sb.invokes[before]
		verifAssert(sb.payloads[before] == string(event), "the event is handed on byte for byte")
		verifAssert(inv.ClientContext == ctx, "the client context is handed on decoded")
		verifAssert(inv.ID != "" && !ids[inv.ID], "every invocation gets a fresh request id")
		ids[inv.ID] = true
		verifAssert(strings.HasPrefix(inv.InvokedFunctionArn, "arn:aws:lambda:") && strings.HasSuffix(inv.InvokedFunctionArn, ":function:test_function"), "the function ARN is passed")
		verifAssert(inv.TraceID == "Root=1-5bef4de7-ad49b0e87f6ef6c87fc2e700", "the trace header is passed")
		buffered := ""
		if sb.writes > 0 {
			buffered = string(sb.respBody)
		}
		switch sb.err {
		case nil:
			verifReach("success")
			verifAssert(string(w.body) == buffered && w.writes == 1, "success: the caller receives exactly the buffered response")
			if sb.writes > 0 && sb.status != 0 {
				verifAssert(w.status == sb.status, "success: the status set by the interop server is passed on")
			}
		case rapidcore.ErrInvokeTimeout:
			verifReach("timeout")
			verifAssert(string(w.body) == "Task timed out after 3.00 seconds" && w.writes == 1, "timeout: the caller receives the timeout text and nothing else (never both)")
		case rapidcore.ErrInvokeDoneFailed, rapidcore.ErrInitDoneFailed:
			verifReach("failure")
			verifAssert(w.status == http.StatusBadGateway, "failure: failure status")
			verifAssert(string(w.body) == buffered, "failure: the body is what the platform buffered (delivered response or error JSON)")
		case rapidcore.ErrAlreadyReserved, rapidcore.ErrAlreadyInvocating:
			verifAssert(w.status == http.StatusBadRequest && len(w.body) == 0, "a refused caller gets 400 and no body")
		case rapidcore.ErrInternalServerError:
			verifAssert(w.status == http.StatusInternalServerError && len(w.body) == 0, "internal error: 500 and no body")
		case rapidcore.ErrReserveReservationDone, rapidcore.ErrInvokeReservationDone, rapidcore.ErrReleaseReservationDone:
			verifAssert(w.status == http.StatusGatewayTimeout && len(w.body) == 0, "reservation cancelled: 504 and no body")
		case rapidcore.ErrInvokeResponseAlreadyWritten:
			verifAssert(len(w.body) == 0, "nothing more is written")
		}
		verifAssert(w.writes <= 1, fmt.Sprintf("exactly one outcome per invocation (%d writes)", w.writes))
	}
	verifReach("done")
}

// a header that is not valid base64 is refused before anything reaches the interop server
func VerifFrontEndBadContext() {
	initDone = true
	verifSetenv("AWS_LAMBDA_FUNCTION_TIMEOUT", "3")
	sb := &verifFrontSandbox{}
	w := verifFrontCall(sb, []byte("{}"), "not base64 !!")
	verifAssert(w.status == 500 && len(sb.invokes) == 0, "an undecodable client context is refused with 500 and nothing is invoked")
	verifReach("done")
}

// consecutive invocations get different request ids and their own events
func VerifFrontEndTwo() {
	initDone = true
	verifSetenv("AWS_LAMBDA_FUNCTION_TIMEOUT", "3")
	sb := &verifFrontSandbox{writes: 1, respBody: []byte("ok")}
	e1, e2 := verifNondetPayload("first event"), verifNondetPayload("second event")
	verifFrontCall(sb, e1, "")
	sb.err = rapidcore.ErrInvokeTimeout
	verifFrontCall(sb, e2, "")
	sb.err = nil
	w3 := verifFrontCall(sb, e1, "")
	verifAssert(len(sb.invokes) == 3 && sb.invokes[0].ID != sb.invokes[1].ID && sb.invokes[1].ID != sb.invokes[2].ID && sb.invokes[0].ID != sb.invokes[2].ID, "every invocation gets a fresh request id")
	verifAssert(sb.payloads[0] == string(e1) && sb.payloads[1] == string(e2) && sb.payloads[2] == string(e1), "each invocation carries its own event, whatever came before")
	verifAssert(string(w3.body) == "ok", "an invocation after a timed-out one gets its own response")
	verifReach("done")
}
