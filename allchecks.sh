#!/bin/bash
# usage: allchecks.sh [quick|thorough] [ids...]: run every claimed check on the current /repo tree
tier=${1:-quick}; shift
ids="$@"
[ -z "$ids" ] && ids=$(jq -r '.checks[].property_id' /verif/MANIFEST.json | tr '\n' ' ')
cd /verif
for id in $ids; do
  s=$(date +%s)
  out=$(./bin/gosmt check $id $tier 2>&1); rc=$?
  e=$(date +%s)
  echo "$id $tier rc=$rc $((e-s))s $(echo "$out" | grep -E 'VIOLATION|KNOWN-FINDING|INCONCLUSIVE' | head -3 | tr '\n' ' ')"
done
