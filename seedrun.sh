#!/bin/bash
# usage: seedrun.sh <patch.diff> <command...> : apply patch to /repo, run command, restore
patch=$1; shift
cd /repo || exit 9
if ! git apply --check "$patch" 2>/dev/null; then echo "PATCH DOES NOT APPLY: $patch"; exit 9; fi
git apply "$patch"
trap 'cd /repo && git checkout -- . ' EXIT
cd /verif && "$@"
