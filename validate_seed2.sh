#!/bin/bash
# usage: validate_seed2.sh <PROP> <N> : second round (N = 3, 4): validates /tmp/seedb-<PROP>/patch<N>.diff + demo<N>_test.go in /tmp/wtb-<PROP>
# and stores the seed under /verif/seeded/<PROP>-<N>/
P=$1; N=$2
export GOFLAGS=-mod=mod GOPROXY=off GOSUMDB=off GOTOOLCHAIN=local
wt=/tmp/wtb-$P; sd=/tmp/seedb-$P
cd $wt || exit 9
git checkout -q -- . ; git clean -fdq
demo=$sd/demo${N}_test.go
[ -f $demo ] || { echo "no demo $demo"; exit 9; }
dir=$(head -1 $demo | sed 's|.*package-dir:[ ]*||; s|[ ]*$||')
cmd=$(sed -n 2p $demo | sed 's|^//[ ]*||')
tname=zz_seed_demo${N}_test.go
cp $demo $wt/$dir/$tname
echo "--- demo without patch: (cd $wt; $cmd)"
( cd $wt; timeout 300 bash -c "$cmd" ) > /tmp/val-$P-$N-clean.txt 2>&1; rc_clean=$?
tail -3 /tmp/val-$P-$N-clean.txt
git apply $sd/patch$N.diff || { echo "patch failed"; exit 9; }
echo "--- build + full suite with patch"
( go build ./... && go test -vet=off -count=1 ./... ) > /tmp/val-$P-$N-suite.txt 2>&1; rc_suite=$?
grep -v "^ok\|no test files" /tmp/val-$P-$N-suite.txt | head -5
# the demo itself is part of ./... : rerun the suite without the demo file for a clean verdict
rm -f $wt/$dir/$tname
( go build ./... && go test -vet=off -count=1 ./... ) > /tmp/val-$P-$N-suite.txt 2>&1; rc_suite=$?
cp $demo $wt/$dir/$tname
echo "--- demo with patch"
( cd $wt; timeout 300 bash -c "$cmd" ) > /tmp/val-$P-$N-patched.txt 2>&1; rc_patched=$?
tail -3 /tmp/val-$P-$N-patched.txt
git checkout -q -- . ; git clean -fdq
echo "RESULT $P-$N: demo_clean_rc=$rc_clean suite_with_patch_rc=$rc_suite demo_patched_rc=$rc_patched"
if [ $rc_clean -eq 0 ] && [ $rc_suite -eq 0 ] && [ $rc_patched -ne 0 ]; then
  out=/verif/seeded/$P-$N; mkdir -p $out
  cp $sd/patch$N.diff $out/patch.diff; cp $demo $out/demo_test.go
  sed -n "1,400p" $sd/notes.md > $out/notes.md
  echo "VALID"
else
  echo "INVALID"
fi
