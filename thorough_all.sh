#!/bin/bash
# runs every claimed thorough check (or the ids given), one log per property under out/th-<id>.txt, summary on stdout
cd /verif
ids="$@"
[ -z "$ids" ] && ids=$(jq -r '.checks[].property_id' MANIFEST.json)
for id in $ids; do
  s=$(date +%s); ./bin/gosmt check $id thorough > out/th-$id.txt 2>&1; rc=$?; e=$(date +%s)
  echo "$id thorough rc=$rc $((e-s))s $(grep -E 'VIOLATION|INCONCLUSIVE' out/th-$id.txt | head -2 | tr '\n' ' ' | cut -c1-200)"
done
