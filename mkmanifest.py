#!/usr/bin/env python3
"""Regenerates /verif/MANIFEST.json from the per-property texts below."""
import json

TECH = "symbolic execution of go/ssa + SMT (z3)"

CLAIMS = {
 "C01": ("Bounded symbolic verification of the invocation round trip on the FULL composition (real rapidcore.Server.Invoke + SandboxContext + rapid orchestration + Runtime API handlers from go/ssa, fake supervisor and scripted runtime): event and response payloads are symbolic byte sequences of any length up to the limit; for every schedule within the delay bound the event reaches the runtime byte for byte, the posted response/error body reaches exactly that caller once, stale/duplicate submissions change nothing, a delivered response survives a later runtime exit; plus the stub-sandbox sequence harness with a symbolic behaviour per invocation.",
         "Trusted: gosmt SSA semantics and intrinsic contracts (sync, channels, select, context, time, bytes/io/http.Header, encoding/json encoder), fake supervisor and process scripts. Bounds: 2-3 invocations, 0-1 extension, D<=2 (quick) / 3 (thorough) delays, timers at quiescence. Front-end HTTP mapping and client-context decoding are outside.",
         TECH + "; FULL-stack harness, symbolic payloads, delay-bounded schedules"),
 "C02": ("Bounded symbolic verification: stale-id and duplicate submissions driven through the real AwsRequestIDValidator + response handler + rapidcore.Server in the FULL composition (400 / refused, caller and later submissions unaffected), and the stub-sandbox sequence with a stale id followed by the right id, for every schedule within the delay bound and symbolic payloads.",
         "Trusted as C01. Bounds: 3 invocations, D<=2/3. The window between validator and send for a submission racing with the next reservation is explored only within the delay bound.",
         TECH + "; FULL-stack harness"),
 "C03": ("Bounded symbolic verification of the init barrier on the ORCH composition (real handleInit/doRuntimeDomainInit/doInitExtensions/HandleInvoke, registration service, flows, gates, Runtime+Extensions API handler bodies from go/ssa): launch set = non-directory entries once each under their base name, runtime started only after every external registration, nobody served before everyone accepted has asked for next, registration refused once the first invocation was delivered, init completes when all arrive; every schedule within the delay bound; 0-2 external (3 thorough) and 0-1 internal extensions.",
         "Trusted: gosmt SSA semantics and intrinsic contracts; os.ReadDir stub; fake supervisor; healthy scripted parties (a held-back party is a schedule in which it is delayed). Bounds: D<=2/3 delays; <=3 external + 1 internal extensions.",
         TECH + "; ORCH harness, delay-bounded schedules, symbolic payloads"),
 "C04": ("Bounded symbolic verification of the invoke barrier and INVOKE fan-out on the ORCH composition: per invocation each INVOKE subscriber gets exactly one event with the runtime's request id, ARN and trace value, non-subscribers none, completion only after runtime response + next and every subscriber's next, events in invocation order, over 2 (3 thorough) consecutive invocations and every schedule within the delay bound.",
         "Trusted as C03. Event deadline equality is checked only textually (same Invoke record); bounds: <=2 extensions + 1 internal, 2-3 invocations, D<=2/3.",
         TECH + "; ORCH harness"),
 "C05": ("Bounded symbolic verification of the timeout path on the FULL composition: a stalled runtime (with and without an extension, and twice in a row) yields ErrInvokeTimeout with no body, only after every process of the generation was terminated, and the next invocation runs on freshly started processes; no deadlock at quiescence (the reset path always completes) for every schedule within the delay bound; plus the stub-sandbox harness for the Server.Invoke timeout branch.",
         "Trusted as C01; logical time only (the wall-clock bound 'timeout + allowance' is outside); stalls before the first next / during registration are not instantiated.",
         TECH + "; FULL-stack harness, timers as schedulable events at quiescence"),
 "C06": ("Bounded symbolic verification of failure handling on the FULL composition: runtime exit after receiving the invocation gives the failure outcome with a JSON body naming Runtime.ExitError, an already delivered response is what the caller keeps, the generation is torn down before the answer and the next invocation recovers (also when it then stalls), for every schedule within the delay bound. Fault-point harnesses: a runtime fault at each of 5 protocol steps (during init, own init/error report, after receiving the invocation, after the response, idle in next) and an extension fault at each of 5 steps (before/after register, after first event, after init/error or exit/error report), each with exit 0 / non-zero / signal, with 0-2 extensions and with the function finished or still running: failure status and never the timeout, body = delivered response / own init-error payload / nothing for an unreported init fault / JSON naming Runtime.ExitError or Extension.Crash, and recovery within two invocations.",
         "Trusted as C01. Extension crashes, init/exit error reports and signal-vs-code are not yet instantiated in the check (partial claim).",
         TECH + "; FULL-stack harness"),
 "C07": ("Bounded symbolic verification that no client behaviour wedges or crashes the emulator: on the FULL composition the first-generation runtime executes EVERY script of L calls over the whole Runtime API alphabet incl. misuse {next, response(in-flight id), response(bogus id), error, init/error, exit, stall, restore/next, restore/error}, the first-generation extension EVERY script over {register, next, init/error, exit/error, exit, stall}, optionally followed by a second faulty generation (stall / exit), then healthy generations, over 3-4 invocations and every schedule within the delay bound: no panic (log.Panic included), no deadlock at quiescence, every invocation returns within timeout + reset allowance of logical time, every body is a payload posted during that invocation or platform-made, and once the faulty generations are gone at most one further invocation fails; plus expiry racing with the lazy initialisation.",
         "Trusted as C01. Script choices are decision variables of the same exploration as the schedule. L<=2 quick, 3 thorough; one extension; wall-clock and HTTP-level misuse outside.",
         TECH + "; exhaustive symbolic misuse scripts, engine-level panic and deadlock detection"),
 "C08": ("Bounded symbolic differential verification that a reset leaves no trace: on the FULL composition a SUBJECT instance goes through one of 6 prefixes (healthy+reset, runtime exit, timeout, init error then exit, response-then-exit, init crash then timeout) ending in a reset, a REFERENCE instance is freshly started and reset at once; both run one of 4 suffixes; the per-generation state after the reset (registrations, barriers, recorded errors, runtime identity, cached error response, reservation) and every suffix observation (caller outcomes, platform events, runtime/extension views, supervisor requests; generation numbers and request ids normalised) must be equal, for every schedule within the delay bound; in the Late variants the exit notification of a killed old process is delivered in each of 3 phases of the next invocation.",
         "Trusted as C01; the fresh-and-reset reference and the normalisation are harness code. Prefix/suffix/phase choices are decision variables. Fields deliberately not compared are listed in the evidence file.",
         TECH + "; differential (relational) harness over two instances in one symbolic run"),
 "C09": ("Bounded symbolic verification of the shutdown choreography on the ORCH composition: for 0-2 extensions whose behaviour is a symbolic choice among {subscribed+exits 0/1, subscribed+ignores, unsubscribed, failed to launch}, runtime {exits on TERM, ignores TERM}, trigger {timeout, failure reset, shutdown}: no extension => one KILL and no TERM; otherwise TERM before KILL and KILL only after 30% of the allowance; exactly one SHUTDOWN event with the reason per subscriber, KILL only at the deadline; unsubscribed killed without event; return only after every started process was reaped; every schedule within the delay bound.",
         "Trusted: gosmt SSA semantics/intrinsics, fake supervisor contract, logical clock with concrete durations (2000 ms allowance). Already-exited / never-started runtime and the symbolic 30% arithmetic are outside.",
         TECH + "; ORCH harness, behaviour choices as decision variables"),
 "C15": ("Bounded symbolic verification of the lifecycle event trace: a recording EventsAPI in the real rapidContext plus a monitor over the ghost log, run at the end of the FULL/ORCH scenarios (healthy, init crash, inline-init crash after a timeout, init/error, timeout and runtime exit with an extension): one init-start first, at most one init-runtime-done, exactly one init-report per init with the same phase, exactly one invoke-start per dispatched invocation, at most one runtime-done after it, success statuses only if the step really succeeded, error statuses carry an error type.",
         "Trusted as C01/C03; the monitor is harness code; restore events and exact error types are outside.",
         TECH + "; trace monitor over FULL-stack scenarios"),
 "C10": ("Bounded symbolic verification: two callers race on the real rapidcore.Server.Invoke (all its goroutines) against a stub sandbox; every schedule within the delay bound, symbolic payloads; no panic obligation reachable, a refused caller gets ErrAlreadyReserved and no bytes, served callers get the right bodies, the next sequential invocation is served.",
         "Trusted: gosmt SSA semantics, contracts for sync/channels/select/context/time.After; stub sandbox; D<=2/3; timers at quiescence.",
         TECH + "; delay-bounded schedule exploration"),
 "C11": ("Bounded symbolic verification: the real gateImpl is run against an abstract counting latch for every symbolic driver script of D operations with symbolic 16-bit arguments and every schedule within the delay bound with W waiters; z3 discharges every assertion on every path; lost wake-ups are checked at quiescence.",
         "Trusted: gosmt's SSA semantics, its sync.Mutex/sync.Cond contracts (no spurious wake-ups), context switches only at synchronisation operations; bounds W<=2..3, D<=3..4 ops, <=2..3 delays.",
         TECH + "; schedule and op choices as decision variables"),
 "C12": ("Bounded symbolic verification of the Runtime API lifecycle: on the FULL composition the first runtime process executes EVERY script of L calls over {next, response(in-flight id), response(stale id), error(in-flight id), init/error} (op choices are decision variables) while two invocations arrive; a reference automaton written from the property text predicts status, error type and blocking behaviour of every call, refused calls must leave it unchanged; plus illegal-call scenarios under all schedules within the delay bound and the snapshot-mode restore calls.",
         "Trusted as C01; the reference automaton is harness code. Router-level 404/405 and route mounting per init mode are outside. L=4 quick, 5 thorough.",
         TECH + "; exhaustive symbolic call scripts vs reference automaton"),
 "C13": ("Bounded symbolic verification of the Extensions API lifecycle: an external and an internal extension each execute EVERY script of L calls over {register(INVOKE), register(unknown event), register(SHUTDOWN), next, init/error, exit/error, unknown / missing / malformed identifier} on the FULL composition against a reference automaton (status, error type, registration data); plus the exit/error-while-parked scenario.",
         "Trusted as C01; reference automaton is harness code; repeated identical final reports are accepted as 202 or 403 (text silent). Ten-extension limit, cross-kind name collision and accountId feature are outside. L=3 quick, 4 thorough.",
         TECH + "; exhaustive symbolic call scripts vs reference automaton"),
 "C18": ("Bounded symbolic verification of the snapshot restore protocol on the ORCH composition in init-caching mode: symbolic runtime behaviour (hook ok / restore error / legacy init error / stalled hook / no restore poll / exit), symbolic error type (SMT strings) and presented credentials token: result of HandleRestore per behaviour, sanitised error type, no release of a runtime parked in next, credentials served only for the generated token, not in the environment, and reflecting the most recent restore.",
         "Trusted: gosmt SSA semantics/intrinsics; hook timeout is a logical timer firing at quiescence; the wall-clock bound is outside.",
         TECH + "; ORCH harness in snapshot mode"),
 "C14": ("Bounded symbolic verification of the size limit on the FULL composition with symbolic multi-megabyte lengths: a response longer than 6 MiB+100 is refused to the runtime with 413, the caller gets Function.ResponseSizeTooLarge stating both sizes and none of the payload, the same environment then delivers a response of at most the limit intact without reset, and an event longer than the limit is cut at the limit on every poll.",
         "Trusted: gosmt SSA semantics, sequence contracts for io/bytes, json encoder contract; cvc5 + z3 portfolio for the length reasoning.",
         TECH + " + cvc5 portfolio; symbolic payload lengths"),
 "C16": ("Bounded symbolic verification of the environment builder with the SMT string theory: the real env package run on a symbolic customer key (free to collide with every reserved key) and symbolic values; reserved values win, unshadowed variables arrive unchanged, extensions never see '_' names or the X-Ray exclusions, both get the stored Runtime API address; KEY=VALUE split at the first '='.",
         "Trusted: gosmt SSA semantics, symbolic-key map case split; one symbolic + one concrete customer key; process environment stubbed. Address truthfulness w.r.t. the listening socket is outside.",
         TECH + " strings (cvc5 primary)"),
 "C17": ("Bounded symbolic verification of the direct-invoke path: relational statelessness of ReceiveDirectInvoke from havocked package variables vs a fresh process; token/header validation; Complete/Oversized/Truncated classification for symbolic payload length, limit and copy fault; token-bucket inductive lemma; chunk partition; the writer with its real ticker goroutine.",
         "Trusted: gosmt SSA semantics and contracts for io/bytes/http.Header/strconv.ParseInt (uninterpreted)/time.Ticker/channels; <=3 chunks, ticker unwound 4 times, <=1/2 delays; streaming reset path not encoded.",
         TECH + "; relational and inductive harnesses"),
 "C19": ("Bounded symbolic verification of the local supervisor: the real LocalSupervisor.Exec (with its Wait goroutine and exit-status decoding through the real syscall.WaitStatus methods), Kill and Terminate from go/ssa against a harness model of the OS process table (replacing exec.Command, Cmd.Start/Wait, ProcessState.Sys, syscall.Getpgid/Kill); exit codes 0..255, signals 1..31 and TERM-handler codes are SMT variables; processes react to TERM in 3 ways, may resist SIGKILL, may fork a child into their group, and may end naturally at any scheduling point; 1-2 processes, 1-3 requests, every schedule within the delay bound: exactly one event with the true status per terminated process, none for a running one; Kill success only after termination and with the whole group gone, success for observed exits, error for unknown names / past deadlines / SIGKILL-resistant processes; Terminate signals the whole group and does not wait; the emulator's own process group is never signalled.",
         "Trusted: gosmt SSA semantics; the OS model (harness code) stands for the kernel: Linux wait-status encoding, group-directed signals, Setpgid. Real kernel behaviour (pid reuse, exec failures), Stop/Freeze/Thaw, >2 processes are outside; counterexamples confirmed by pinned engine re-execution only.",
         TECH + "; real supervisor code against a modelled process table"),
 "C20": ("Bounded symbolic verification with the SMT string theory: (1) GetValidRuntimeOrFunctionErrorType on an arbitrary printable-ASCII string of unbounded length against the exact-form specification (regular-expression membership); (2) the runtime identity string for user agent absent/token/token+text and 0..3 feature tokens of symbolic length: bracket form and the 128-byte bound, and immutability once features were appended; (3) error cause: all-empty / invalid documents dropped, recognised fields passed on, cropString prefix+mark for symbolic string and length, and the 64 KiB bound of the accepted cause for escape-heavy messages (k plain letters + n six-byte-escaped characters, k and n symbolic, exact escaping for this family).",
         "Trusted: regexp -> RegLan translation, structural strings.Fields/ReplaceAll on declared tokens, cvc5/z3 string solvers. NOT claimed: the 64 KiB bound of the re-marshalled error cause under JSON escaping (both solvers time out).",
         TECH + " strings/regex"),
}

NA = {}

def chk(pid):
    text, note, tech = CLAIMS[pid]
    return {"property_id": pid,
            "quick_cmd": f"/verif/bin/gosmt check {pid} quick",
            "thorough_cmd": f"/verif/bin/gosmt check {pid} thorough",
            "evidence_file": f"/verif/evidence/{pid}.json",
            "replay_cmd_template": f"/verif/bin/gosmt check {pid} --replay {{path}}",
            "engine": "gosmt",
            "level_claimed": {"category": "other", "text": text, "design_ref": f"DESIGN.md section 5/{pid}"},
            "level_note": note, "technique": tech}

m = {"version": 1,
     "setup_cmd": "cd /verif/gosmt && GOFLAGS=-mod=mod GOPROXY=off GOSUMDB=off GOTOOLCHAIN=local go build -o /verif/bin/gosmt . && /verif/bin/gosmt selftest",
     "hooks": {"guard": "verif",
               "enable": "harness files (build tag verif) are injected into /repo's packages through a go/packages overlay (symbolic run) and go test -overlay (native replay); no file is written into /repo",
               "baseline_off_cmd": "for m in $(cat /w/out/gomods.txt); do MF=$(cd /repo/$m && . /w/out/goenv.sh && gomodflag); (cd /repo/$m && go test $MF -json -vet=off -count=1 -timeout 25m ./...); done",
               "source_commits": [], "add_only": True},
     "engines": [{"name": "gosmt", "path": "/verif/gosmt", "serves_properties": sorted(CLAIMS),
                  "kind_free_text": "symbolic executor for Go SSA (golang.org/x/tools/go/ssa) written for this task: real functions of /repo are executed on SMT terms, path conditions and negated assertions are discharged by z3 (z3 5.1 -in, push/pop; z3 4.8.12 and cvc5 as fallback); scheduler choices (delay-bounded), timer firings and operation choices are decision variables of the same exploration; counterexamples are re-executed with pinned values and, for sequential harnesses, replayed natively through go test -overlay"}],
     "checks": [chk(p) for p in sorted(CLAIMS)],
     "not_applicable": [],
     "notes": "see DESIGN.md"}
for i in range(1, 21):
    pid = f"C{i:02d}"
    if pid not in CLAIMS:
        m["not_applicable"].append({"property_id": pid, "reason": NA.get(pid, "check under construction in this session: harness not registered yet (no technical obstacle identified)")})
json.dump(m, open("/verif/MANIFEST.json", "w"), indent=1)
print("claimed:", sorted(CLAIMS))
