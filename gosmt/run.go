package main

// One `run` = one symbolic path: decisions (branch outcomes, scheduler
// choices, select choices) are replayed from a prefix and extended; every
// alternative of a new decision is queued as a new prefix.

import (
	"fmt"
	"go/token"
	"go/types"
	"os"
	"sort"
	"strconv"
	"strings"
	"sync"

	"golang.org/x/tools/go/ssa"
)

type varDecl struct {
	Name  string `json:"name"`
	Label string `json:"label"`
	Kind  string `json:"kind"` // int, uint, bool, string, bytes, choice, sched, clock
	sort  Sort
}

type violation struct {
	Kind    string            `json:"kind"` // assert, panic, deadlock
	Msg     string            `json:"msg"`
	Pos     string            `json:"pos"`
	Harness string            `json:"harness"`
	Model   map[string]string `json:"model"`
	Nondet  []nondetVal       `json:"nondet"`
	Sched   []string          `json:"schedule"`
	Trace   []int             `json:"decisions"`
	Clock   bool              `json:"uses_clock_stub"`
}

type nondetVal struct {
	Label string `json:"label"`
	Kind  string `json:"kind"`
	Value string `json:"value"` // decimal, true/false, or hex for strings/bytes
}

type invariantRec struct {
	name string
	fn   value
}

// checkInvariants evaluates the harness' state invariants at a scheduling point.
func (r *run) checkInvariants() {
	if len(r.invariants) == 0 || r.inInvariant || r.dead {
		return
	}
	r.inInvariant = true
	r.atomicDepth++
	defer func() { r.atomicDepth--; r.inInvariant = false }()
	for _, inv := range r.invariants {
		res := r.call(nil, token.NoPos, inv.fn, nil)
		ok := true
		switch b := res.(type) {
		case bool:
			ok = b
		case *sym:
			if r.solver.CheckWith(smtNot(b.t)) == Sat {
				ok = false
			} else {
				r.assertPC(b.t)
			}
		}
		if !ok {
			r.addViolation(violation{Kind: "assert", Msg: "invariant violated: " + inv.name}, true)
			panic(pathEnd{"invariant"})
		}
	}
}

// parseApp records an application of the uninterpreted ParseInt contract to a string term,
// so that a counterexample can be concretised into a string that really parses that way.
type parseApp struct{ str, okF, valF string }

type thread struct {
	id        int
	name      string
	env       bool
	wake      chan struct{}
	done      bool
	started   bool
	blockedOn func() bool
	blockDesc string
	daemon    bool
	entry     string
}

type mutexState struct {
	locked  bool
	readers int
	owner   *thread
}

type condWaiter struct {
	th       *thread
	signaled bool
}

type condState struct {
	waiters []*condWaiter
}

type onceState struct {
	done       bool
	inProgress bool
}

type timerv struct {
	id       int
	deadline string // Int term (ns, monotonic)
	ch       *chanv
	fn       func(r *run) // executed in a new thread
	fired    bool
	stopped  bool
	period   string // ticker
	ticks    int
	label    string
}

type run struct {
	repeats map[string]repeatRec // strings known to be n copies of a literal
	fmtPlus bool // %+v in progress
	e      *engine
	h      *harnessSpec
	solver *Solver

	prefix []int
	trace  []int
	kinds  []string
	alts   [][]int

	vars    []varDecl
	nvars   int
	nondets []varDecl // harness-visible nondet values in call order

	globals  map[*ssa.Global]*value
	initDone map[*ssa.Package]bool

	threads     []*thread
	cur         *thread
	preemptions int
	dead        bool
	doneCh      chan struct{}
	finishOnce  sync.Once
	schedLog    []string

	mutexes map[*value]*mutexState
	conds   map[*value]*condState
	onces   map[*value]*onceState
	wgs     map[*value]*int64
	avals   map[*value]*value
	nchan   int
	timers  []*timerv
	now     string
	nowC    int64
	wallOff string
	ticks   int

	steps int

	violations   []violation
	inconcl      []string
	reached      map[string]bool
	expectPanic  int
	assumeFailed bool
	uuidCount    int
	stash        map[string]value
	stubs        map[string]value
	pin          map[string]string
	bounds       map[string]interval
	tickBound    bool
	traceCalls   bool
	daemons      []string
	parseApps    []parseApp
	known        map[string]bool
	tokens       map[string]bool
	raceTimers   bool
	invariants   []invariantRec
	inInvariant  bool
	raceSet      bool
	atomicDepth  int
}

func (r *run) inconclusive(msg string) {
	r.inconcl = append(r.inconcl, msg)
}

// ---------------------------------------------------------------------------
// decisions

func (r *run) recordAlt(k int) {
	alt := make([]int, len(r.trace)+1)
	copy(alt, r.trace)
	alt[len(r.trace)] = k
	r.alts = append(r.alts, alt)
}

// choose makes an n-way non-symbolic decision (scheduler, select, harness op).
func (r *run) choose(n int, kind string) int {
	if n <= 1 {
		return 0
	}
	pos := len(r.trace)
	if pos >= r.e.opts.maxDecisions {
		r.inconclusive("decision depth bound exceeded")
		panic(pathEnd{"depth"})
	}
	if pos < len(r.prefix) {
		k := r.prefix[pos]
		r.trace = append(r.trace, k)
		return k
	}
	for k := 1; k < n; k++ {
		r.recordAlt(k)
	}
	r.trace = append(r.trace, 0)
	return 0
}

// branch decides a symbolic condition: it follows the prefix, or asks the
// solver which sides are feasible and queues the other one.
func (r *run) branch(c *sym) bool {
	if c.t == "true" {
		return true
	}
	if c.t == "false" {
		return false
	}
	// an atom already decided on this path needs no decision (and no solver call)
	if v, ok := r.known[c.t]; ok {
		return v
	}
	if strings.HasPrefix(c.t, "(not ") {
		if v, ok := r.known[c.t[5:len(c.t)-1]]; ok {
			return !v
		}
	}
	res := r.branch0(c)
	r.known[c.t] = res
	return res
}

func (r *run) branch0(c *sym) bool {
	pos := len(r.trace)
	if pos >= r.e.opts.maxDecisions {
		r.inconclusive("decision depth bound exceeded")
		panic(pathEnd{"depth"})
	}
	if pos < len(r.prefix) {
		k := r.prefix[pos]
		r.trace = append(r.trace, k)
		if k == 0 {
			r.assertPC(c.t)
			return true
		}
		r.assertPC(smtNot(c.t))
		return false
	}
	rt := r.solver.CheckWith(c.t)
	rf := Unknown
	if !r.solver.dead || r.solver.alt != nil {
		rf = r.solver.CheckWith(smtNot(c.t))
	}
	if r.solver.dead && r.solver.alt == nil {
		r.inconclusive("solver hard timeout on branch condition " + truncate(c.t, 200))
		panic(pathEnd{"solver dead"})
	}
	if rt == Unknown || rf == Unknown {
		r.inconclusive("solver unknown on branch condition " + truncate(c.t, 200))
	}
	switch {
	case rt != Unsat && rf != Unsat:
		r.recordAlt(1)
		r.trace = append(r.trace, 0)
		r.assertPC(c.t)
		return true
	case rt != Unsat:
		r.trace = append(r.trace, 0)
		r.assertPC(c.t)
		return true
	case rf != Unsat:
		r.trace = append(r.trace, 1)
		r.assertPC(smtNot(c.t))
		return false
	}
	panic(pathEnd{"infeasible"})
}

func truncate(s string, n int) string {
	if len(s) > n {
		return s[:n] + "..."
	}
	return s
}

func (r *run) assertPC(t string) {
	r.solver.Assert(t)
	if len(t) < 400 {
		r.learnBounds(t)
	}
}

func (r *run) fresh(kind string, label string, sort Sort) *sym {
	name := fmt.Sprintf("%s_%d", kind, r.nvars)
	r.nvars++
	r.solver.Declare(name, sort)
	r.vars = append(r.vars, varDecl{Name: name, Label: label, Kind: kind, sort: sort})
	if r.pin != nil && kind != "rep" {
		if v, ok := r.pin[name]; ok && v != "" {
			r.solver.Assert("(= " + name + " " + v + ")")
		}
	}
	return &sym{name, sort}
}

// ---------------------------------------------------------------------------
// globals and package initialisation

func (r *run) globalAddr(g *ssa.Global) *value {
	if a, ok := r.globals[g]; ok {
		return a
	}
	// lazily create storage; lazily run the package initialiser if allowed
	cell := zero(deref(g.Type()))
	a := &cell
	r.globals[g] = a
	r.ensureInit(g.Pkg)
	return a
}

func (r *run) ensureInit(pkg *ssa.Package) {
	if pkg == nil || r.initDone[pkg] {
		return
	}
	r.initDone[pkg] = true
	if !r.e.initAllowed(pkg) {
		return
	}
	if initFn := pkg.Func("init"); initFn != nil {
		// make the guard global look "not yet initialised"
		r.callSSA(nil, token.NoPos, initFn, nil, nil)
	}
}

// ---------------------------------------------------------------------------
// threads and scheduling

func (r *run) newThread(name string, env bool) *thread {
	th := &thread{id: len(r.threads), name: name, env: env, wake: make(chan struct{}, 1)}
	r.threads = append(r.threads, th)
	return th
}

func (r *run) spawn(fr *frame, fn value, args []value, env bool, where string) *thread {
	th := r.newThread(fmt.Sprintf("T%d@%s", len(r.threads), shortPos(where)), env)
	switch f := fn.(type) {
	case *ssa.Function:
		th.entry = f.String()
	case *closure:
		th.entry = f.Fn.String()
	}
	for _, d := range r.daemons {
		if strings.Contains(th.entry, d) {
			th.env = true
		}
	}
	if len(r.threads) > r.e.opts.maxThreads {
		r.inconclusive("thread bound exceeded")
		panic(pathEnd{"threads"})
	}
	go r.threadMain(th, func() { r.call(nil, token.NoPos, fn, args) })
	return th
}

func (r *run) threadMain(th *thread, body func()) {
	<-th.wake
	if r.dead {
		return
	}
	th.started = true
	defer func() {
		p := recover()
		if r.dead {
			return
		}
		switch p := p.(type) {
		case nil:
		case pathEnd:
			r.finish()
			return
		case unsupported:
			r.inconclusive("unsupported: " + p.msg)
			r.finish()
			return
		case targetPanic:
			r.reportPanic(th, p)
			r.finish()
			return
		case exitPanic:
			r.reportPanic(th, targetPanic{msg: fmt.Sprintf("process exit(%d) (log.Fatal/os.Exit)", p.code)})
			r.finish()
			return
		default:
			r.inconclusive(fmt.Sprintf("engine panic: %v", p))
			r.finish()
			return
		}
		th.done = true
		if th.id == 0 {
			r.finish()
			return
		}
		r.threadExit(th)
	}()
	body()
}

func (r *run) reportPanic(th *thread, p targetPanic) {
	v := violation{Kind: "panic", Msg: p.msg, Pos: shortPos(p.pos)}
	r.addViolation(v, true)
}

// threadExit hands the baton to another thread after th finished.
func (r *run) threadExit(th *thread) {
	defer func() {
		if p := recover(); p != nil {
			if _, ok := p.(pathEnd); ok {
				r.finish()
				return
			}
			r.inconclusive(fmt.Sprintf("engine panic at thread exit: %v", p))
			r.finish()
		}
	}()
	r.schedule(false)
}

func (r *run) finish() {
	r.finishOnce.Do(func() {
		r.dead = true
		close(r.doneCh)
		for _, t := range r.threads {
			select {
			case t.wake <- struct{}{}:
			default:
			}
		}
	})
}

func (th *thread) enabled() bool {
	if th.done {
		return false
	}
	if th.blockedOn == nil {
		return true
	}
	return th.blockedOn()
}

type schedOption struct {
	th *thread
	tm *timerv
}

// schedule picks the next thread to run. canContinue: the caller is at a
// yield point and could simply go on.
func (r *run) schedule(canContinue bool) {
	r.checkInvariants()
	cur := r.cur
	for {
		if r.dead {
			panic(pathEnd{"dead"})
		}
		// Delay-bounded scheduling (Emmi, Qadeer, Rakamaric 2011): the base scheduler is
		// deterministic -- keep running the current thread while it can run, otherwise take
		// the next enabled thread in round-robin order, timers last -- and every deviation
		// (skipping k candidates) costs k units of the delay budget.
		var opts []schedOption
		curEnabled := canContinue && !cur.done
		if curEnabled {
			opts = append(opts, schedOption{th: cur})
		}
		n := len(r.threads)
		for d := 1; d <= n; d++ {
			t := r.threads[(cur.id+d)%n]
			if t == cur {
				if !curEnabled && t.enabled() {
					opts = append(opts, schedOption{th: t})
				}
				continue
			}
			if t.enabled() {
				opts = append(opts, schedOption{th: t})
			}
		}
		var tms []schedOption
		for _, tm := range r.timers {
			if !tm.fired && !tm.stopped {
				tms = append(tms, schedOption{tm: tm})
			}
		}
		if len(tms) > 1 && r.h.concreteClock {
			// logical time is faithful: timers fire in deadline order (creation order breaks
			// ties, and only tied timers are alternatives to each other); a timer goroutine
			// that is scheduled late is modelled by delaying the thread it wakes
			sort.SliceStable(tms, func(i, j int) bool {
				di, oki := parseSmtInt(tms[i].tm.deadline)
				dj, okj := parseSmtInt(tms[j].tm.deadline)
				return oki && okj && di < dj
			})
			if d0, ok := parseSmtInt(tms[0].tm.deadline); ok && !r.raceTimers {
				n := 1
				for n < len(tms) {
					if d, ok := parseSmtInt(tms[n].tm.deadline); !ok || d != d0 {
						break
					}
					n++
				}
				tms = tms[:n]
			}
		}
		if len(tms) > 0 {
			maxProg := r.h.maximalProgress
			if r.raceSet {
				maxProg = !r.raceTimers
			}
			if maxProg {
				if len(opts) == 0 {
					opts = append(opts, tms...)
				}
			} else {
				opts = append(opts, tms...)
			}
		}
		budget := r.h.preemptionBound - r.preemptions
		if budget < 0 {
			budget = 0
		}
		if len(opts) > budget+1 {
			opts = opts[:budget+1]
		}
		if len(opts) == 0 {
			r.quiescent()
			panic(pathEnd{"quiescent"})
		}
		k := r.choose(len(opts), "sched")
		o := opts[k]
		r.preemptions += k
		if o.tm != nil {
			r.schedLog = append(r.schedLog, "fire "+o.tm.label)
			r.fireTimer(o.tm)
			continue
		}
		if o.th == cur {
			return
		}
		r.schedLog = append(r.schedLog, "switch "+o.th.name)
		if r.traceCalls {
			fmt.Fprintf(os.Stderr, "  --- switch to %s\n", o.th.name)
		}
		r.cur = o.th
		o.th.wake <- struct{}{}
		if cur.done {
			return // goroutine of the finished thread exits
		}
		<-cur.wake
		if r.dead {
			panic(pathEnd{"dead"})
		}
		return
	}
}

// quiescent: nobody can run. Deadlock if an internal thread is still blocked.
func (r *run) quiescent() {
	var blocked []string
	for _, t := range r.threads {
		if !t.done && !t.env {
			blocked = append(blocked, t.name+" blocked on "+t.blockDesc)
		}
	}
	if len(blocked) > 0 {
		if r.tickBound {
			// a ticker was cut off by the unwinding bound: longer waits are outside the bound
			r.reached["bound:ticker-unwinding"] = true
			return
		}
		if r.h.allowDeadlock {
			r.reached["deadlock"] = true
		} else {
			r.addViolation(violation{Kind: "deadlock", Msg: "no thread can run: " + strings.Join(blocked, "; ")}, true)
		}
	}
}

func (r *run) multi() bool {
	if len(r.threads) > 1 {
		return true
	}
	for _, tm := range r.timers {
		if !tm.fired && !tm.stopped {
			return true
		}
	}
	return false
}

// yield is a scheduling point before a visible operation.
func (r *run) yield() {
	if r.atomicDepth > 0 {
		return
	}
	if !r.multi() {
		return
	}
	r.schedule(true)
}

// blockUntil parks the current thread until cond holds and it is scheduled again.
func (r *run) blockUntil(desc string, cond func() bool) {
	th := r.cur
	if cond() {
		return
	}
	th.blockedOn = cond
	th.blockDesc = desc
	r.schedule(false)
	th.blockedOn = nil
	th.blockDesc = ""
}

// ---------------------------------------------------------------------------
// channels

func (r *run) newChan(capacity int) *chanv {
	r.nchan++
	return &chanv{id: r.nchan, cap: capacity}
}

func (w *chanWaiter) stale() bool {
	return w.done || (w.sel != nil && w.sel.fired >= 0) || w.th.done
}

func firstLive(q *[]*chanWaiter) *chanWaiter {
	for len(*q) > 0 {
		w := (*q)[0]
		if w.stale() {
			*q = (*q)[1:]
			continue
		}
		return w
	}
	return nil
}

func (w *chanWaiter) complete() {
	w.done = true
	if w.sel != nil {
		w.sel.fired = w.idx
	}
}

func (r *run) blockForever(desc string) {
	r.blockUntil(desc, func() bool { return false })
	panic(pathEnd{"blocked forever"})
}

// trySend attempts a non-blocking send; returns true if done.
func (r *run) trySend(c *chanv, v value) bool {
	if c.closed {
		panic(targetPanic{msg: "send on closed channel"})
	}
	if w := firstLive(&c.recvq); w != nil {
		c.recvq = c.recvq[1:]
		w.recv, w.ok = v, true
		w.complete()
		return true
	}
	if len(c.buf) < c.cap {
		c.buf = append(c.buf, v)
		return true
	}
	return false
}

func (r *run) canSend(c *chanv) bool {
	if c == nil {
		return false
	}
	return c.closed || firstLive(&c.recvq) != nil || len(c.buf) < c.cap
}

func (r *run) canRecv(c *chanv) bool {
	if c == nil {
		return false
	}
	return len(c.buf) > 0 || firstLive(&c.sendq) != nil || c.closed
}

func (r *run) tryRecv(c *chanv) (value, bool, bool) {
	if len(c.buf) > 0 {
		v := c.buf[0]
		c.buf = c.buf[1:]
		if w := firstLive(&c.sendq); w != nil {
			c.sendq = c.sendq[1:]
			c.buf = append(c.buf, w.val)
			w.complete()
		}
		return v, true, true
	}
	if w := firstLive(&c.sendq); w != nil {
		c.sendq = c.sendq[1:]
		w.complete()
		return w.val, true, true
	}
	if c.closed {
		return nil, false, true
	}
	return nil, false, false
}

func (r *run) chanSend(fr *frame, c *chanv, v value) {
	r.yield()
	if c == nil {
		r.blockForever("send on nil channel")
	}
	if r.trySend(c, v) {
		return
	}
	w := &chanWaiter{th: r.cur, val: v}
	c.sendq = append(c.sendq, w)
	r.blockUntil(fmt.Sprintf("chan send (chan %d)", c.id), func() bool { return w.done || c.closed })
	if !w.done && c.closed {
		panic(targetPanic{msg: "send on closed channel"})
	}
}

func (r *run) chanRecv(fr *frame, c *chanv) (value, bool) {
	r.yield()
	if c == nil {
		r.blockForever("receive from nil channel")
	}
	if v, ok, done := r.tryRecv(c); done {
		return v, ok
	}
	w := &chanWaiter{th: r.cur}
	c.recvq = append(c.recvq, w)
	r.blockUntil(fmt.Sprintf("chan receive (chan %d %s)", c.id, c.label), func() bool { return w.done || c.closed })
	if w.done {
		return w.recv, w.ok
	}
	w.done = true
	return nil, false
}

func (r *run) chanClose(fr *frame, c *chanv) {
	if c == nil {
		panic(targetPanic{msg: "close of nil channel"})
	}
	if c.closed {
		panic(targetPanic{msg: "close of closed channel"})
	}
	c.closed = true
	for _, w := range c.recvq {
		if !w.stale() {
			w.recv, w.ok = nil, false
			w.complete()
		}
	}
	c.recvq = nil
}

func (r *run) selectStmt(fr *frame, instr *ssa.Select) value {
	r.yield()
	type caseInfo struct {
		c    *chanv
		send bool
		val  value
	}
	cases := make([]caseInfo, len(instr.States))
	for i, st := range instr.States {
		c, _ := fr.get(st.Chan).(*chanv)
		cases[i] = caseInfo{c: c, send: st.Dir == types.SendOnly}
		if st.Send != nil {
			cases[i].val = copyVal(fr.get(st.Send))
		}
	}
	ready := func() []int {
		var rs []int
		for i, cs := range cases {
			if cs.send {
				if r.canSend(cs.c) {
					rs = append(rs, i)
				}
			} else if r.canRecv(cs.c) {
				rs = append(rs, i)
			}
		}
		return rs
	}
	result := func(chosen int, recv value, recvOk bool) value {
		res := tuple{int64(chosen), recvOk}
		for i, st := range instr.States {
			if st.Dir == types.RecvOnly {
				var v value
				if i == chosen && recvOk {
					v = recv
				} else {
					v = zero(st.Chan.Type().Underlying().(*types.Chan).Elem())
				}
				res = append(res, v)
			}
		}
		return res
	}
	exec := func(i int) value {
		cs := cases[i]
		if cs.send {
			if !r.trySend(cs.c, cs.val) {
				panic("select: send not ready")
			}
			return result(i, nil, false)
		}
		v, ok, done := r.tryRecv(cs.c)
		if !done {
			panic("select: recv not ready")
		}
		return result(i, v, ok)
	}
	rs := ready()
	if len(rs) > 0 {
		k := r.choose(len(rs), "select")
		return exec(rs[k])
	}
	if !instr.Blocking {
		return result(-1, nil, false)
	}
	// block on all cases
	ss := &selectState{fired: -1}
	ws := make([]*chanWaiter, len(cases))
	for i, cs := range cases {
		if cs.c == nil {
			continue
		}
		w := &chanWaiter{th: r.cur, sel: ss, idx: i, val: cs.val}
		ws[i] = w
		if cs.send {
			cs.c.sendq = append(cs.c.sendq, w)
		} else {
			cs.c.recvq = append(cs.c.recvq, w)
		}
	}
	r.blockUntil("select at "+shortPos(fr.pos(instr)), func() bool {
		if ss.fired >= 0 {
			return true
		}
		for _, cs := range cases {
			if cs.c != nil && cs.c.closed {
				return true
			}
		}
		return false
	})
	if ss.fired >= 0 {
		w := ws[ss.fired]
		if cases[ss.fired].send {
			return result(ss.fired, nil, false)
		}
		return result(ss.fired, w.recv, w.ok)
	}
	// a channel was closed while we were parked
	for i, cs := range cases {
		if cs.c != nil && cs.c.closed {
			ss.fired = i
			if cs.send {
				panic(targetPanic{msg: "send on closed channel (select)"})
			}
			return result(i, nil, false)
		}
	}
	panic("select: woke without reason")
}

// ---------------------------------------------------------------------------
// time

func (r *run) clockRead() value {
	if r.h.concreteClock {
		r.nowC += 1000
		return r.nowC
	}
	return r.clockReadSym()
}

func (r *run) clockReadSym() *sym {
	if r.h.frozenClock && r.now != "" {
		return &sym{r.now, SInt}
	}
	c := r.fresh("clk", "clock", SInt)
	if r.now == "" {
		r.assertPC(sx(">", c.t, "0"))
		r.assertPC(sx("<", c.t, "4000000000000000000"))
	} else {
		r.assertPC(sx(">=", c.t, r.now))
		r.assertPC(sx("<", c.t, "4000000000000000000"))
	}
	r.now = c.t
	return c
}

func (r *run) wallOffset() string {
	if r.h.concreteClock {
		return "1700000000000000000"
	}
	if r.wallOff == "" {
		w := r.fresh("walloff", "wall-mono offset", SInt)
		r.assertPC(sx(">=", w.t, "0"))
		r.assertPC(sx("<", w.t, "2000000000000000000"))
		r.wallOff = w.t
	}
	return r.wallOff
}

func (r *run) newTimer(dur value, label string) *timerv {
	now := r.clockRead()
	tm := &timerv{id: len(r.timers), label: fmt.Sprintf("timer%d(%s)", len(r.timers), label)}
	if nc, ok := now.(int64); ok {
		if dc, ok := dur.(int64); ok {
			tm.deadline = smtInt(nc + dc)
		} else {
			tm.deadline = sx("+", smtInt(nc), intTerm(dur))
		}
	} else {
		tm.deadline = sx("+", intTerm(now), intTerm(dur))
	}
	r.timers = append(r.timers, tm)
	return tm
}

func (r *run) fireTimer(tm *timerv) {
	if r.h.concreteClock {
		r.fireTimerConcrete(tm)
		return
	}
	// time has reached the deadline
	c := r.fresh("clk", "clock@"+tm.label, SInt)
	if r.now != "" {
		r.assertPC(sx(">=", c.t, r.now))
	}
	r.assertPC(sx(">=", c.t, tm.deadline))
	r.assertPC(sx("<", c.t, "4000000000000000000"))
	r.now = c.t
	r.ticks++
	if tm.period != "" {
		tm.ticks++
		tm.deadline = sx("+", tm.deadline, tm.period)
		if tm.ticks >= r.h.maxTicks {
			tm.stopped = true
			r.tickBound = true
		}
	} else {
		tm.fired = true
	}
	if tm.ch != nil {
		if len(tm.ch.buf) < tm.ch.cap || firstLive(&tm.ch.recvq) != nil {
			r.trySend(tm.ch, r.timeValue(&sym{sx("+", c.t, r.wallOffset()), SInt}))
		}
	}
	if tm.fn != nil {
		tm.fn(r)
	}
}

func (r *run) fireTimerConcrete(tm *timerv) {
	d, ok := parseSmtInt(tm.deadline)
	if !ok {
		panic(unsupported{"symbolic timer deadline under the concrete clock: " + tm.deadline})
	}
	if d > r.nowC {
		r.nowC = d
	}
	r.nowC += 1000
	r.ticks++
	if tm.period != "" {
		tm.ticks++
		p, _ := parseSmtInt(tm.period)
		tm.deadline = smtInt(d + p)
		if tm.ticks >= r.h.maxTicks {
			tm.stopped = true
			r.tickBound = true
		}
	} else {
		tm.fired = true
	}
	if tm.ch != nil {
		if len(tm.ch.buf) < tm.ch.cap || firstLive(&tm.ch.recvq) != nil {
			r.trySend(tm.ch, r.timeValue(r.nowC+1700000000000000000))
		}
	}
	if tm.fn != nil {
		tm.fn(r)
	}
}

// timeValue builds a time.Time structure whose ext field carries wall ns.
func (r *run) timeValue(ns value) value {
	return structure{uint64(0), ns, (*value)(nil)}
}

// ---------------------------------------------------------------------------
// violations

func (r *run) addViolation(v violation, needModel bool) {
	v.Harness = r.h.name
	v.Trace = append([]int(nil), r.trace...)
	v.Sched = append([]string(nil), r.schedLog...)
	if needModel {
		res := r.solver.Check()
		if res == Unsat {
			return // path infeasible after all
		}
		if res == Unknown {
			r.inconclusive("solver unknown while extracting model for " + v.Kind + ": " + v.Msg)
			return
		}
	}
	r.fillModel(&v)
	r.violations = append(r.violations, v)
}

func (r *run) usesClock() bool { return r.now != "" || r.nowC != 0 }

func (r *run) fillModel(v *violation) {
	names := make([]string, 0, len(r.vars))
	for _, d := range r.vars {
		if d.Kind == "rep" {
			continue // content is determined by the count
		}
		names = append(names, d.Name)
	}
	vals := r.solver.GetValues(names)
	v.Model = vals
	v.Clock = r.usesClock()
	// concretise strings that went through the uninterpreted ParseInt contract
	override := map[string]string{}
	for _, pa := range r.parseApps {
		isVar := false
		for _, d := range r.vars {
			if d.Name == pa.str {
				isVar = true
			}
		}
		if !isVar {
			continue
		}
		okT := "(" + pa.okF + " " + pa.str + ")"
		valT := "(" + pa.valF + " " + pa.str + ")"
		res := r.solver.GetValues([]string{okT, valT})
		if res[okT] == "true" {
			if n, ok := parseSmtInt(res[valT]); ok {
				override[pa.str] = fmt.Sprint(n)
			}
		} else {
			cur := parseSmtStr(vals[pa.str])
			if _, err := strconv.ParseInt(cur, 10, 64); err == nil && cur != "" {
				override[pa.str] = cur + "x"
			}
		}
	}
	for _, d := range r.nondets {
		nv := nondetVal{Label: d.Label, Kind: d.Kind}
		raw := vals[d.Name]
		switch d.sort {
		case SStr, SBytes:
			nv.Value = fmt.Sprintf("%x", parseSmtStr(raw))
			if o, ok := override[d.Name]; ok {
				nv.Value = fmt.Sprintf("%x", o)
			}
		case SBool:
			nv.Value = raw
		case SInt:
			if n, ok := parseSmtInt(raw); ok {
				nv.Value = fmt.Sprint(n)
			} else {
				nv.Value = raw
			}
		default:
			nv.Value = raw
		}
		if d.Kind == "choice" {
			nv.Value = d.Name // concrete choice stored in Name
		}
		v.Nondet = append(v.Nondet, nv)
	}
}

func sortedKeys(m map[string]bool) []string {
	var ks []string
	for k := range m {
		ks = append(ks, k)
	}
	sort.Strings(ks)
	return ks
}


// repeatRec: the string variable is exactly n copies of lit (strings.Repeat with a symbolic
// count). Its length is tied to n; escaping and prefix slicing stay exact.
type repeatRec struct {
	lit string
	n   string
}

func (r *run) newRepeat(lit string, n string, label string) *sym {
	v := r.fresh("rep", label, SStr)
	if r.repeats == nil {
		r.repeats = map[string]repeatRec{}
	}
	r.repeats[v.t] = repeatRec{lit, n}
	r.assertPC(sx(">=", n, "0"))
	r.assertPC(sx("=", "(str.len "+v.t+")", sx("*", smtInt(int64(len(lit))), n)))
	return v
}
