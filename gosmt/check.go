package main

import (
	"bytes"
	"encoding/json"
	"fmt"
	"os"
	"os/exec"
	"path/filepath"
	"sort"
	"strings"
	"time"
)

const verifRoot = "/verif"
const repoRoot = "/repo"

type checkSpec struct {
	id       string
	level    string // evidence level
	quick    []*harnessSpec
	thorough []*harnessSpec
	assume   []string
	outside  []string
}

type knownFinding struct {
	Property string   `json:"property"`
	Status   string   `json:"status"` // known | fixed
	Harness  string   `json:"harness_prefix"`
	Msg      string   `json:"assertion"`
	Kind     string   `json:"kind"`
	Witness  []string `json:"witness_contains"`
	What     string   `json:"what"`
	Commit   string   `json:"commit,omitempty"`
}

func loadKnownFindings() []knownFinding {
	b, err := os.ReadFile(filepath.Join(verifRoot, "known_findings.json"))
	if err != nil {
		return nil
	}
	var kf struct {
		Findings []knownFinding `json:"findings"`
	}
	if err := json.Unmarshal(b, &kf); err != nil {
		fmt.Fprintln(os.Stderr, "known_findings.json:", err)
		return nil
	}
	return kf.Findings
}

func (k *knownFinding) matches(id string, v *violation) bool {
	if k.Status != "known" || k.Property != id {
		return false
	}
	if k.Harness != "" && !strings.HasPrefix(v.Harness, k.Harness) {
		return false
	}
	if k.Kind != "" && k.Kind != v.Kind {
		return false
	}
	if k.Msg != "" && !strings.Contains(v.Msg, k.Msg) {
		return false
	}
	if len(k.Witness) > 0 {
		b, _ := json.Marshal(v)
		for _, w := range k.Witness {
			if !bytes.Contains(b, []byte(w)) {
				return false
			}
		}
	}
	return true
}

func cmdCheck(args []string) int {
	if len(args) < 1 {
		fmt.Fprintln(os.Stderr, "usage: gosmt check <id> [quick|thorough] | gosmt check <id> --replay <path>")
		return 2
	}
	id := args[0]
	tier := "quick"
	if t := os.Getenv("VERIF_TIER"); t == "quick" || t == "thorough" {
		tier = t
	}
	if len(args) > 1 && (args[1] == "quick" || args[1] == "thorough") {
		tier = args[1]
	}
	if len(args) > 2 && args[1] == "--replay" {
		return cmdReplay(id, args[2])
	}
	spec := findCheck(id)
	if spec == nil {
		fmt.Fprintln(os.Stderr, "unknown property", id)
		return 2
	}
	t0 := time.Now()
	hs := spec.quick
	if tier == "thorough" && len(spec.thorough) > 0 {
		hs = spec.thorough
	}
	pkgSet := map[string]bool{}
	for _, h := range hs {
		pkgSet[h.pkg] = true
	}
	var pkgs []string
	for p := range pkgSet {
		pkgs = append(pkgs, p)
	}
	sort.Strings(pkgs)
	opts := defaultOptions()
	if w := os.Getenv("VERIF_WORKERS"); w != "" {
		fmt.Sscan(w, &opts.workers)
	}
	e, err := loadEngine(repoRoot, filepath.Join(verifRoot, "harness"), pkgs, opts)
	if err != nil {
		fmt.Println("INCONCLUSIVE: cannot load /repo with harness overlay:", err)
		writeEvidence(spec, tier, nil, nil, time.Since(t0).Seconds(), 0, []string{"load failed: " + err.Error()})
		return 2
	}
	known := loadKnownFindings()
	outDir := filepath.Join(verifRoot, "out", id)
	os.MkdirAll(outDir, 0o755)
	var results []*harnessResult
	nViol := 0
	var inconcl []string
	cexN := 0
	for _, h := range hs {
		res := e.explore(h)
		results = append(results, res)
		fmt.Printf("[%s] %s: paths=%d depth<=%d violations=%d inconclusive=%d (%.1fs)\n", id, h.name, res.paths, res.maxDepth, len(res.violations), len(res.inconcl), res.wall)
		for _, m := range res.inconcl {
			inconcl = append(inconcl, h.name+": "+m)
		}
		reportedKnown := map[string]bool{}
		confirmedMsg := map[string]int{}
		for i := range res.violations {
			v := &res.violations[i]
			if confirmedMsg[v.Kind+"|"+v.Msg] >= 1 {
				continue // further witnesses of an already confirmed violation are not replayed again
			}
			isKnown := false
			for ki := range known {
				if known[ki].matches(id, v) {
					key := known[ki].What
					if !reportedKnown[key] {
						reportedKnown[key] = true
						fmt.Printf("KNOWN-FINDING: property=%s %s\n", id, known[ki].What)
					}
					isKnown = true
					break
				}
			}
			if isKnown {
				continue
			}
			// confirm: pinned re-execution in the engine, then native replay
			cexN++
			path := filepath.Join(outDir, fmt.Sprintf("cex-%d.json", cexN))
			b, _ := json.MarshalIndent(v, "", " ")
			os.WriteFile(path, b, 0o644)
			okEngine := e.replayPinned(h, v)
			native, nativeOut := nativeReplay(e, h, v, path)
			os.WriteFile(path+".native.txt", []byte(nativeOut), 0o644)
			fmt.Printf("  counterexample %s: %s: %s @ %s | engine-replay=%v native-replay=%s\n", path, v.Kind, v.Msg, v.Pos, okEngine, native)
			confirmed := false
			switch {
			case native == "reproduced":
				confirmed = true
			case okEngine && native == "not-applicable":
				confirmed = true
			case okEngine && v.Clock && native == "not-reproduced":
				// the path depends on values of the clock stub, which a native run cannot be given
				confirmed = true
			case okEngine && h.preemptionBound > 0:
				// schedule-dependent: native goroutine scheduling is not controlled; the pinned
				// re-execution of the real SSA under the counterexample schedule reproduced it
				confirmed = true
			}
			if confirmed {
				confirmedMsg[v.Kind+"|"+v.Msg]++
				nViol++
				fmt.Printf("VIOLATION property=%s replay=%s\n", id, path)
			} else {
				inconcl = append(inconcl, fmt.Sprintf("%s: counterexample %s did not reproduce (engine=%v native=%s)", h.name, path, okEngine, native))
			}
		}
		if nViol > 0 {
			// a confirmed violation decides the check: the remaining harnesses are not run
			fmt.Printf("[%s] confirmed violation: %d of %d harnesses run\n", id, len(results), len(hs))
			break
		}
	}
	wall := time.Since(t0).Seconds()
	writeEvidence(spec, tier, e, results, wall, nViol, inconcl)
	if nViol > 0 {
		return 1
	}
	if len(inconcl) > 0 {
		for _, m := range inconcl {
			fmt.Println("INCONCLUSIVE:", m)
		}
		return 2
	}
	fmt.Printf("[%s] %s tier: all obligations discharged (%.1fs)\n", id, tier, wall)
	return 0
}

// replayPinned re-executes the counterexample's decisions with every symbolic
// variable pinned to the model value and checks that the same violation occurs.
func (e *engine) replayPinned(h *harnessSpec, v *violation) bool {
	fn := e.findFunc(h.pkg, h.name)
	if fn == nil {
		return false
	}
	solver := newSolverFor(e, h)
	defer solver.Close()
	r := e.runPathPinned(h, fn, v.Trace, solver, v.Model)
	for _, v2 := range r.violations {
		if v2.Kind == v.Kind && v2.Msg == v.Msg {
			return true
		}
	}
	return false
}

func cmdReplay(id, path string) int {
	if abs, err := filepath.Abs(path); err == nil {
		path = abs // the native replay runs in another working directory
	}
	b, err := os.ReadFile(path)
	if err != nil {
		fmt.Fprintln(os.Stderr, err)
		return 2
	}
	var v violation
	if err := json.Unmarshal(b, &v); err != nil {
		fmt.Fprintln(os.Stderr, err)
		return 2
	}
	spec := findCheck(id)
	if spec == nil {
		return 2
	}
	var h *harnessSpec
	for _, x := range append(append([]*harnessSpec{}, spec.quick...), spec.thorough...) {
		if x.name == v.Harness {
			h = x
		}
	}
	if h == nil {
		fmt.Fprintln(os.Stderr, "harness not found:", v.Harness)
		return 2
	}
	e, err := loadEngine(repoRoot, filepath.Join(verifRoot, "harness"), []string{h.pkg}, defaultOptions())
	if err != nil {
		fmt.Fprintln(os.Stderr, err)
		return 2
	}
	okEngine := e.replayPinned(h, &v)
	native, out := nativeReplay(e, h, &v, path)
	fmt.Printf("engine-replay=%v native-replay=%s\n%s\n", okEngine, native, out)
	if okEngine || native == "reproduced" {
		fmt.Printf("VIOLATION property=%s replay=%s\n", id, path)
		return 1
	}
	return 0
}

// nativeReplay compiles the harness natively (go test -overlay) and feeds it
// the solver's assignment. Returns reproduced | not-reproduced | not-applicable | error.
func nativeReplay(e *engine, h *harnessSpec, v *violation, cexPath string) (string, string) {
	if h.noNative {
		return "not-applicable", ""
	}
	rel := strings.TrimPrefix(h.pkg, modulePath+"/")
	scratch := filepath.Join(verifRoot, "out", "replay-"+fmt.Sprint(os.Getpid()))
	os.MkdirAll(scratch, 0o755)
	defer os.RemoveAll(scratch)
	replace := map[string]string{}
	shim, _ := os.ReadFile(filepath.Join(verifRoot, "harness", "shim.go.tmpl"))
	pkgName := ""
	hroot := filepath.Join(verifRoot, "harness")
	n := 0
	filepath.Walk(hroot, func(path string, info os.FileInfo, err error) error {
		if err != nil || !info.IsDir() || path == hroot {
			return nil
		}
		r, _ := filepath.Rel(hroot, path)
		ents, _ := os.ReadDir(path)
		pn := ""
		for _, ent := range ents {
			if strings.HasSuffix(ent.Name(), ".go") {
				src := filepath.Join(path, ent.Name())
				replace[filepath.Join(repoRoot, r, ent.Name())] = src
				if pn == "" {
					b, _ := os.ReadFile(src)
					pn = packageNameOf(b)
				}
			}
		}
		if pn != "" {
			n++
			sp := filepath.Join(scratch, fmt.Sprintf("shim%d.go", n))
			os.WriteFile(sp, []byte(strings.ReplaceAll(string(shim), "PACKAGE", pn)), 0o644)
			replace[filepath.Join(repoRoot, r, "zz_verif_shim.go")] = sp
			if r == rel {
				pkgName = pn
			}
		}
		return nil
	})
	test := fmt.Sprintf(`//go:build verif

package %s

import "testing"

func TestVerifReplay(t *testing.T) {
	%s()
	for _, m := range verifReplayFailures() {
		t.Error(m)
	}
}
`, pkgName, h.name)
	testPath := filepath.Join(scratch, "zz_verif_replay_test.go")
	os.WriteFile(testPath, []byte(test), 0o644)
	replace[filepath.Join(repoRoot, rel, "zz_verif_replay_test.go")] = testPath
	ov, _ := json.Marshal(map[string]interface{}{"Replace": replace})
	ovPath := filepath.Join(scratch, "overlay.json")
	os.WriteFile(ovPath, ov, 0o644)
	cmd := exec.Command("go", "test", "-tags", "verif", "-overlay", ovPath, "-run", "^TestVerifReplay$", "-count=1", "-vet=off", "-timeout", "120s", "./"+rel)
	cmd.Dir = repoRoot
	cmd.Env = append(os.Environ(), "GOFLAGS=-mod=mod", "GOPROXY=off", "GOSUMDB=off", "GOTOOLCHAIN=local", "VERIF_REPLAY="+cexPath)
	out, err := cmd.CombinedOutput()
	txt := string(out)
	if err == nil {
		return "not-reproduced", txt
	}
	if strings.Contains(txt, "[build failed]") || strings.Contains(txt, "[setup failed]") {
		return "error", txt
	}
	switch v.Kind {
	case "assert":
		if strings.Contains(txt, "ASSERT: "+v.Msg) {
			return "reproduced", txt
		}
		return "not-reproduced", txt
	case "deadlock":
		if strings.Contains(txt, "DEADLOCK") || strings.Contains(txt, "test timed out") || strings.Contains(txt, "all goroutines are asleep") {
			return "reproduced", txt
		}
		return "not-reproduced", txt
	default:
		if strings.Contains(txt, "panic:") || strings.Contains(txt, "fatal error") || strings.Contains(txt, "level=fatal") || strings.Contains(txt, "exit status") {
			return "reproduced", txt
		}
	}
	return "not-reproduced", txt
}

// ---------------------------------------------------------------------------
// evidence

func writeEvidence(spec *checkSpec, tier string, e *engine, results []*harnessResult, wall float64, nViol int, inconcl []string) {
	seed := 0
	fmt.Sscan(os.Getenv("VERIF_SEED"), &seed)
	cov := map[string]interface{}{}
	var samples []interface{}
	obligations := map[string]bool{}
	totalPaths := 0
	var harnessInfo []interface{}
	witnesses := 0
	for _, res := range results {
		totalPaths += res.paths
		var asserts []string
		for k := range res.reached {
			if strings.HasPrefix(k, "assert:") {
				obligations[res.spec.name+"/"+k] = true
				asserts = append(asserts, strings.TrimPrefix(k, "assert:"))
			} else {
				witnesses++
			}
		}
		sort.Strings(asserts)
		hi := map[string]interface{}{
			"harness":            res.spec.pkg + "." + res.spec.name,
			"what":               res.spec.desc,
			"symbolic_paths":     res.paths,
			"max_decision_depth": res.maxDepth,
			"preemption_bound":   res.spec.preemptionBound,
			"obligations_proved": asserts,
			"reach_witnesses":    witnessesOf(res.reached),
			"violations":         len(res.violations),
			"wall_s":             res.wall,
		}
		harnessInfo = append(harnessInfo, hi)
		if len(samples) < 12 {
			samples = append(samples, hi)
		}
	}
	var funcs, intr []string
	if e != nil {
		for f := range e.funcs {
			if strings.Contains(f, modulePath) && !strings.Contains(f, "verif") && !strings.Contains(f, "Verif") {
				funcs = append(funcs, f)
			}
		}
		for f := range e.intrU {
			if !strings.HasPrefix(f, "verif:") && !strings.Contains(f, "verif") {
				intr = append(intr, f)
			}
		}
		sort.Strings(funcs)
		sort.Strings(intr)
	}
	cov["explanation"] = "Bounded symbolic execution of the repository's own functions taken from go/ssa (regenerated from /repo's working tree on this run): inputs, operation choices, scheduler choices and timer firings are SMT variables; each harness path condition and the negated assertion are discharged by z3. 'unsat' = the assertion holds for every value of the symbolic variables on that path; every path of the bounded decision tree was explored unless an inconclusive entry says otherwise."
	cov["evaluations"] = int(gstats.queries)
	cov["distinct_nontrivial"] = len(obligations)
	cov["rule"] = "evaluations = SMT queries discharged; distinct_nontrivial = distinct (harness, assertion) obligations that were reached on at least one feasible path (so none is vacuous) and proved on every path"
	cov["samples"] = samples
	cov["harnesses"] = harnessInfo
	cov["functions_encoded"] = funcs
	cov["functions_encoded_count"] = len(funcs)
	cov["intrinsics_used"] = intr
	cov["symbolic_paths"] = totalPaths
	cov["reach_witnesses"] = witnesses
	cov["queries"] = map[string]interface{}{"total": gstats.queries, "sat": gstats.sat, "unsat": gstats.unsat, "unknown": gstats.unknown}
	cov["solver_s"] = float64(gstats.solverNs) / 1e9
	cov["solver"] = "z3 5.1.0 (z3-new -in, one live process per worker, push/pop); z3 4.8.12 and cvc5 1.0.3 as one-shot fallback on unknown"
	cov["inconclusive"] = inconcl
	cov["outside_the_claim"] = spec.outside
	cov["exhaustive"] = false
	if e != nil {
		cov["load_s"] = e.loadS
	}
	ev := map[string]interface{}{
		"property_id": spec.id,
		"tier":        tier,
		"seed":        seed,
		"level":       spec.level,
		"coverage":    cov,
		"assumptions": spec.assume,
		"wall_s":      wall,
		"violations":  nViol,
	}
	b, _ := json.MarshalIndent(ev, "", " ")
	os.MkdirAll(filepath.Join(verifRoot, "evidence"), 0o755)
	os.WriteFile(filepath.Join(verifRoot, "evidence", spec.id+".json"), b, 0o644)
}

func witnessesOf(m map[string]bool) []string {
	var ws []string
	for k := range m {
		if !strings.HasPrefix(k, "assert:") {
			ws = append(ws, k)
		}
	}
	sort.Strings(ws)
	return ws
}
