package main

import (
	"encoding/base64"
	"fmt"
	"go/token"
	"go/types"
	"math"
	"net"
	"net/textproto"
	"path"
	"path/filepath"
	"regexp"
	"sort"
	"strings"
	"syscall"
)

// seqLenTerm returns the length of a byte/str sequence value as a value.
func (r *run) seqLen(v value) value { return r.callBuiltinLen(v) }

// seqSlice returns v[lo:hi] for sequences (nil bound = open).
func (r *run) seqSlice(fr *frame, v value, lo, hi value) value {
	return r.slice(fr, nil, v, lo, hi, nil)
}

func (r *run) minInt(a, b value) value {
	if x, ok := a.(int64); ok {
		if y, ok := b.(int64); ok {
			if x < y {
				return x
			}
			return y
		}
	}
	at, bt := intTerm(a), intTerm(b)
	// decide by interval analysis when possible (bounds learned from the path condition)
	if len(at)+len(bt) > 3000 {
		return intSym("(ite (< " + at + " " + bt + ") " + at + " " + bt + ")")
	}
	if ea, eb := parseSexp(at), parseSexp(bt); ea != nil && eb != nil {
		ia, ib := r.intervalOf(ea), r.intervalOf(eb)
		if ia.hi != nil && ib.lo != nil && ia.hi.Cmp(ib.lo) <= 0 {
			return a
		}
		if ib.hi != nil && ia.lo != nil && ib.hi.Cmp(ia.lo) <= 0 {
			return b
		}
	}
	return r.nameIfLarge(intSym("(ite (< " + at + " " + bt + ") " + at + " " + bt + ")"))
}

// seqPrefix returns the first n bytes of v (n already known to be <= len).
func (r *run) seqTake(v value, off value, n value) value {
	switch vv := v.(type) {
	case []value:
		o, ok1 := off.(int64)
		c, ok2 := n.(int64)
		if ok1 && ok2 {
			return vv[o : o+c]
		}
		return &sym{sx("str.substr", strTerm(vv), intTerm(off), intTerm(n)), SBytes}
	case string:
		o, ok1 := off.(int64)
		c, ok2 := n.(int64)
		if ok1 && ok2 {
			return vv[o : o+c]
		}
		return &sym{sx("str.substr", smtStr(vv), intTerm(off), intTerm(n)), SStr}
	case *sym:
		if o, ok := off.(int64); ok && o == 0 {
			if ns, ok := n.(*sym); ok && ns.t == "(str.len "+vv.t+")" {
				return vv
			}
		}
		return r.nameIfLarge(&sym{sx("str.substr", vv.t, intTerm(off), intTerm(n)), vv.sort})
	case nil:
		return []value(nil)
	}
	panic(fmt.Sprintf("seqTake %T", v))
}

func toBytesVal(v value) value {
	switch v := v.(type) {
	case string:
		return bytesToValues(v)
	case *sym:
		return &sym{v.t, SBytes}
	}
	return v
}

// readN consumes up to n bytes (n == nil: everything) from a reader value.
// It returns the data and the error the reader would report (nil iface = EOF reached cleanly).
func (r *run) readN(fr *frame, rd iface, n value) (value, iface) {
	if rd.t == nil {
		panic(targetPanic{msg: "read from nil io.Reader"})
	}
	tname := rd.t.String()
	switch tname {
	case "*bytes.Reader", "*strings.Reader":
		p := rd.v.(*value)
		st := (*p).(structure)
		s := st[0]
		i := st[1]
		total := r.seqLen(s)
		rem := r.subInt(total, i)
		take := rem
		if n != nil {
			take = r.minInt(rem, n)
		}
		data := toBytesVal(r.seqTake(s, i, take))
		st[1] = r.addInt(i, take)
		return data, iface{}
	case "*bytes.Buffer":
		p := rd.v.(*value)
		st := (*p).(structure)
		buf := st[0]
		off := st[1]
		total := r.seqLen(buf)
		rem := r.subInt(total, off)
		take := rem
		if n != nil {
			take = r.minInt(rem, n)
		}
		data := r.seqTake(buf, off, take)
		st[1] = r.addInt(off, take)
		return data, iface{}
	case "*io.LimitedReader":
		p := rd.v.(*value)
		st := (*p).(structure)
		inner := st[0].(iface)
		N := st[1]
		lim := N
		if n != nil {
			lim = r.minInt(N, n)
		}
		// negative N reads nothing
		if ln, ok := lim.(int64); ok && ln <= 0 {
			return []value{}, iface{}
		}
		if ls, ok := lim.(*sym); ok {
			if !r.branch(boolSym(sx(">", ls.t, "0"))) {
				return []value{}, iface{}
			}
		}
		data, err := r.readN(fr, inner, lim)
		st[1] = r.subInt(N, r.seqLen(data))
		return data, err
	case "io.nopCloser", "io.nopCloserWriterTo":
		st := rd.v.(structure)
		return r.readN(fr, st[0].(iface), n)
	}
	// harness readers: VerifRead(n int64) ([]byte, error)   (n < 0: everything)
	if f := r.findMethod(rd.t, "VerifRead"); f != nil {
		var nn value = int64(-1)
		if n != nil {
			nn = n
		}
		res := r.call(fr, token.NoPos, f, []value{rd.v, nn}).(tuple)
		return res[0], res[1].(iface)
	}
	// embedded reader (e.g. struct{io.Reader; io.Closer})
	if st, ok := rd.t.Underlying().(*types.Struct); ok {
		for i := 0; i < st.NumFields(); i++ {
			f := st.Field(i)
			if f.Embedded() {
				if it, ok := rd.v.(structure)[i].(iface); ok && it.t != nil && r.findMethod(it.t, "Read") != nil {
					return r.readN(fr, it, n)
				}
			}
		}
	}
	panic(unsupported{"readN: unknown reader type " + tname})
}

func addIOIntrinsics(m map[string]intrinsicFn) {
	m["io.ReadAll"] = func(fr *frame, a []value) value {
		data, err := fr.r.readN(fr, a[0].(iface), nil)
		if dv, ok := data.([]value); ok && dv == nil {
			data = []value{}
		}
		return tuple{data, err}
	}
	m["io/ioutil.ReadAll"] = m["io.ReadAll"]
	m["io.Copy"] = func(fr *frame, a []value) value {
		r := fr.r
		data, err := r.readN(fr, a[1].(iface), nil)
		res := r.callMethod(fr, a[0].(iface), "Write", data).(tuple)
		if werr := res[1].(iface); werr.t != nil {
			return tuple{res[0], werr}
		}
		return tuple{res[0], err}
	}
	m["io.CopyN"] = func(fr *frame, a []value) value {
		r := fr.r
		data, err := r.readN(fr, a[1].(iface), a[2])
		res := r.callMethod(fr, a[0].(iface), "Write", data).(tuple)
		if werr := res[1].(iface); werr.t != nil {
			return tuple{res[0], werr}
		}
		return tuple{res[0], err}
	}
	m["io.WriteString"] = func(fr *frame, a []value) value {
		return fr.r.callMethod(fr, a[0].(iface), "Write", toBytesVal(a[1]))
	}

	// bytes.Buffer: struct{buf []byte; off int; lastRead readOp}
	bst := func(a []value) structure { return (*(a[0].(*value))).(structure) }
	content := func(r *run, st structure) value {
		buf, off := st[0], st[1]
		if o, ok := off.(int64); ok && o == 0 {
			if buf == nil {
				return []value(nil)
			}
			return buf
		}
		total := r.seqLen(buf)
		return r.seqTake(buf, off, r.subInt(total, off))
	}
	appendBuf := func(r *run, st structure, data value) {
		cur := content(r, st)
		st[1] = int64(0)
		if cv, ok := cur.([]value); ok {
			switch d := data.(type) {
			case []value:
				st[0] = append(append([]value(nil), cv...), d...)
				return
			case string:
				st[0] = append(append([]value(nil), cv...), bytesToValues(d)...)
				return
			}
			if len(cv) == 0 {
				st[0] = toBytesVal(data)
				return
			}
		}
		st[0] = &sym{sx("str.++", strTerm(cur), strTerm(data)), SBytes}
	}
	m["(*bytes.Buffer).Write"] = func(fr *frame, a []value) value {
		appendBuf(fr.r, bst(a), a[1])
		return tuple{fr.r.seqLen(a[1]), iface{}}
	}
	m["(*bytes.Buffer).WriteString"] = m["(*bytes.Buffer).Write"]
	m["(*bytes.Buffer).WriteByte"] = func(fr *frame, a []value) value {
		appendBuf(fr.r, bst(a), []value{a[1]})
		return iface{}
	}
	m["(*bytes.Buffer).Bytes"] = func(fr *frame, a []value) value {
		c := content(fr.r, bst(a))
		if cv, ok := c.([]value); ok && cv == nil {
			return []value{}
		}
		return toBytesVal(c)
	}
	m["(*bytes.Buffer).String"] = func(fr *frame, a []value) value {
		if a[0].(*value) == nil {
			return "<nil>"
		}
		c := content(fr.r, bst(a))
		switch c := c.(type) {
		case []value:
			if s, ok := goBytes(c); ok {
				return s
			}
			return strSym(strTerm(c))
		case *sym:
			return strSym(c.t)
		}
		return ""
	}
	m["(*bytes.Buffer).Len"] = func(fr *frame, a []value) value {
		st := bst(a)
		return fr.r.subInt(fr.r.seqLen(st[0]), st[1])
	}
	m["(*bytes.Buffer).Reset"] = func(fr *frame, a []value) value {
		st := bst(a)
		st[0] = []value{}
		st[1] = int64(0)
		return nil
	}
	m["(*bytes.Buffer).ReadFrom"] = func(fr *frame, a []value) value {
		r := fr.r
		data, err := r.readN(fr, a[1].(iface), nil)
		appendBuf(r, bst(a), data)
		return tuple{r.seqLen(data), err}
	}
	m["(*bytes.Buffer).WriteTo"] = func(fr *frame, a []value) value {
		r := fr.r
		st := bst(a)
		c := toBytesVal(content(r, st))
		st[0] = []value{}
		st[1] = int64(0)
		res := r.callMethod(fr, a[1].(iface), "Write", c).(tuple)
		return tuple{res[0], res[1]}
	}
	m["bytes.Equal"] = func(fr *frame, a []value) value {
		x, xs := a[0].(*sym)
		y, ys := a[1].(*sym)
		if !xs && !ys {
			xv, _ := a[0].([]value)
			yv, _ := a[1].([]value)
			xb, ok1 := goBytes(xv)
			yb, ok2 := goBytes(yv)
			if ok1 && ok2 {
				return xb == yb
			}
		}
		_ = x
		_ = y
		return boolSym(sx("=", strTerm(a[0]), strTerm(a[1])))
	}

	// net/http.Header
	hdr := func(a []value) *mapv { m, _ := a[0].(*mapv); return m }
	canon := func(k value) value {
		if s, ok := k.(string); ok {
			return textproto.CanonicalMIMEHeaderKey(s)
		}
		panic(unsupported{"http.Header with symbolic key"})
	}
	m["(net/http.Header).Get"] = func(fr *frame, a []value) value {
		h := hdr(a)
		if h == nil {
			return ""
		}
		e := fr.r.mapFind(h, canon(a[1]))
		if e == nil {
			return ""
		}
		vs, _ := e.val.([]value)
		if len(vs) == 0 {
			return ""
		}
		return vs[0]
	}
	m["(net/http.Header).Values"] = func(fr *frame, a []value) value {
		h := hdr(a)
		if h == nil {
			return []value(nil)
		}
		e := fr.r.mapFind(h, canon(a[1]))
		if e == nil {
			return []value(nil)
		}
		return e.val
	}
	m["(net/http.Header).Set"] = func(fr *frame, a []value) value {
		h := hdr(a)
		if h == nil {
			panic(targetPanic{msg: "assignment to entry in nil map (http.Header.Set)"})
		}
		fr.r.mapUpdate(h, canon(a[1]), []value{a[2]})
		return nil
	}
	m["(net/http.Header).Add"] = func(fr *frame, a []value) value {
		h := hdr(a)
		if h == nil {
			panic(targetPanic{msg: "assignment to entry in nil map (http.Header.Add)"})
		}
		k := canon(a[1])
		if e := fr.r.mapFind(h, k); e != nil {
			vs, _ := e.val.([]value)
			e.val = append(append([]value(nil), vs...), a[2])
			return nil
		}
		fr.r.mapUpdate(h, k, []value{a[2]})
		return nil
	}
	m["(net/http.Header).Del"] = func(fr *frame, a []value) value {
		fr.r.mapDelete(hdr(a), canon(a[1]))
		return nil
	}
	m["net/http.Error"] = func(fr *frame, a []value) value {
		r := fr.r
		w := a[0].(iface)
		h := r.callMethod(fr, w, "Header").(*mapv)
		r.mapDelete(h, "Content-Length")
		r.mapUpdate(h, "Content-Type", []value{"text/plain; charset=utf-8"})
		r.mapUpdate(h, "X-Content-Type-Options", []value{"nosniff"})
		r.callMethod(fr, w, "WriteHeader", a[2])
		msg := catStr([]value{a[1], "\n"})
		r.callMethod(fr, w, "Write", toBytesVal(msg))
		return nil
	}
	m["net/http.StatusText"] = func(fr *frame, a []value) value {
		return "status"
	}
}

func concBytesOrStr(v value) (string, bool) {
	switch v := v.(type) {
	case string:
		return v, true
	case []value:
		return goBytes(v)
	}
	return "", false
}

func addBytealgIntrinsics(m map[string]intrinsicFn) {
	idxByte := func(fr *frame, a []value) value {
		s, ok := concBytesOrStr(a[0])
		c, ok2 := a[1].(uint64)
		if ok && ok2 {
			return int64(strings.IndexByte(s, byte(c)))
		}
		if ok2 {
			return intSym(sx("str.indexof", strTerm(a[0]), smtStr(string([]byte{byte(c)})), "0"))
		}
		panic(unsupported{"bytealg.IndexByte with symbolic byte"})
	}
	m["internal/bytealg.IndexByteString"] = idxByte
	m["internal/bytealg.IndexByte"] = idxByte
	m["strings.IndexByte"] = idxByte
	m["bytes.IndexByte"] = idxByte
	m["internal/bytealg.IndexString"] = func(fr *frame, a []value) value {
		x, ok := concBytesOrStr(a[0])
		y, ok2 := concBytesOrStr(a[1])
		if ok && ok2 {
			return int64(strings.Index(x, y))
		}
		return intSym(sx("str.indexof", strTerm(a[0]), strTerm(a[1]), "0"))
	}
	m["internal/bytealg.Index"] = m["internal/bytealg.IndexString"]
	m["internal/bytealg.CountString"] = func(fr *frame, a []value) value {
		x, ok := concBytesOrStr(a[0])
		c, ok2 := a[1].(uint64)
		if ok && ok2 {
			return int64(strings.Count(x, string([]byte{byte(c)})))
		}
		panic(unsupported{"bytealg.Count symbolic"})
	}
	m["internal/bytealg.Count"] = m["internal/bytealg.CountString"]
	m["internal/bytealg.Equal"] = func(fr *frame, a []value) value {
		x, ok := concBytesOrStr(a[0])
		y, ok2 := concBytesOrStr(a[1])
		if ok && ok2 {
			return x == y
		}
		return boolSym(sx("=", strTerm(a[0]), strTerm(a[1])))
	}
	m["internal/bytealg.Compare"] = func(fr *frame, a []value) value {
		x, ok := concBytesOrStr(a[0])
		y, ok2 := concBytesOrStr(a[1])
		if ok && ok2 {
			return int64(strings.Compare(x, y))
		}
		panic(unsupported{"bytealg.Compare symbolic"})
	}
	m["internal/bytealg.MakeNoZero"] = func(fr *frame, a []value) value {
		n := int(asInt64(a[0]))
		out := make([]value, n)
		for i := range out {
			out[i] = uint64(0)
		}
		return out
	}
	m["internal/stringslite.Index"] = m["strings.Index"]
	m["internal/stringslite.IndexByte"] = idxByte
	m["internal/stringslite.HasPrefix"] = m["strings.HasPrefix"]
	m["internal/stringslite.HasSuffix"] = m["strings.HasSuffix"]
	m["internal/stringslite.Cut"] = m["strings.Cut"]
	m["internal/stringslite.TrimPrefix"] = m["strings.TrimPrefix"]
	m["internal/stringslite.TrimSuffix"] = m["strings.TrimSuffix"]
	m["strings.Count"] = func(fr *frame, a []value) value {
		x, ok := concStr(a[0])
		y, ok2 := concStr(a[1])
		if ok && ok2 {
			return int64(strings.Count(x, y))
		}
		panic(unsupported{"strings.Count symbolic"})
	}
	m["strings.LastIndexByte"] = func(fr *frame, a []value) value {
		x, ok := concStr(a[0])
		c, ok2 := a[1].(uint64)
		if ok && ok2 {
			return int64(strings.LastIndexByte(x, byte(c)))
		}
		panic(unsupported{"strings.LastIndexByte symbolic"})
	}
	m["strings.IndexAny"] = func(fr *frame, a []value) value {
		x, ok := concStr(a[0])
		y, ok2 := concStr(a[1])
		if ok && ok2 {
			return int64(strings.IndexAny(x, y))
		}
		panic(unsupported{"strings.IndexAny symbolic"})
	}
	m["strings.ContainsRune"] = func(fr *frame, a []value) value {
		x, ok := concStr(a[0])
		c, ok2 := a[1].(int64)
		if ok && ok2 {
			return strings.ContainsRune(x, rune(c))
		}
		if ok2 && c < 128 {
			return boolSym(sx("str.contains", strTerm(a[0]), smtStr(string(rune(c)))))
		}
		panic(unsupported{"strings.ContainsRune symbolic"})
	}
}

func addMiscIntrinsics(m map[string]intrinsicFn) {
	addBytealgIntrinsics(m)
	m["regexp.MatchString"] = func(fr *frame, a []value) value {
		pat, ok := a[0].(string)
		if !ok {
			panic(unsupported{"regexp with symbolic pattern"})
		}
		if s, ok := a[1].(string); ok {
			ok2, err := regexp.MatchString(pat, s)
			if err != nil {
				return tuple{false, fr.r.newError(err.Error())}
			}
			return tuple{ok2, iface{}}
		}
		re, err := regexToSMT(pat, false)
		if err != nil {
			return tuple{false, fr.r.newError(err.Error())}
		}
		return tuple{boolSym("(str.in_re " + strTerm(a[1]) + " " + re + ")"), iface{}}
	}
	m["github.com/google/uuid.New"] = func(fr *frame, a []value) value { return fr.r.newUUID() }
	m["github.com/google/uuid.NewRandom"] = func(fr *frame, a []value) value {
		return tuple{fr.r.newUUID(), iface{}}
	}
	m["github.com/google/uuid.NewString"] = func(fr *frame, a []value) value {
		fr.r.uuidCount++
		return fmt.Sprintf("00000000-0000-4000-8000-%012x", fr.r.uuidCount)
	}
	m["(github.com/google/uuid.UUID).String"] = func(fr *frame, a []value) value {
		arr := a[0].(array)
		var b [16]byte
		for i := range b {
			b[i] = byte(arr[i].(uint64))
		}
		return fmt.Sprintf("%x-%x-%x-%x-%x", b[0:4], b[4:6], b[6:8], b[8:10], b[10:16])
	}
	m["github.com/google/uuid.Parse"] = func(fr *frame, a []value) value {
		r := fr.r
		s, ok := a[0].(string)
		if !ok {
			// symbolic identifier: valid iff it has the canonical 36-char form; the bytes are not reconstructed
			st := a[0].(*sym).t
			hex := `(re.union (re.range "0" "9") (re.range "a" "f") (re.range "A" "F"))`
			form := "(re.++ ((_ re.^ 8) " + hex + `) (str.to_re "-") ((_ re.^ 4) ` + hex + `) (str.to_re "-") ((_ re.^ 4) ` + hex + `) (str.to_re "-") ((_ re.^ 4) ` + hex + `) (str.to_re "-") ((_ re.^ 12) ` + hex + "))"
			if r.branch(boolSym("(str.in_re " + st + " " + form + ")")) {
				return tuple{r.newUUID(), iface{}}
			}
			// other accepted encodings (urn:uuid:, braces, 32 hex) are excluded on this path
			r.assertPC("(not (str.prefixof \"urn:uuid:\" " + st + "))")
			r.assertPC("(not (str.prefixof \"{\" " + st + "))")
			r.assertPC("(not (= (str.len " + st + ") 32))")
			return tuple{zero(r.e.namedType("github.com/google/uuid", "UUID")), r.newError("invalid UUID")}
		}
		u, err := parseUUID(s)
		if err != nil {
			return tuple{zero(r.e.namedType("github.com/google/uuid", "UUID")), r.newError(err.Error())}
		}
		arr := make(array, 16)
		for i := range arr {
			arr[i] = uint64(u[i])
		}
		return tuple{arr, iface{}}
	}

	m["math.Min"] = func(fr *frame, a []value) value {
		x, xo := a[0].(float64)
		y, yo := a[1].(float64)
		if xo && yo {
			return math.Min(x, y)
		}
		at, bt := fpTerm(a[0]), fpTerm(a[1])
		return &sym{"(fp.min " + at + " " + bt + ")", SFP}
	}
	m["math.Max"] = func(fr *frame, a []value) value {
		x, xo := a[0].(float64)
		y, yo := a[1].(float64)
		if xo && yo {
			return math.Max(x, y)
		}
		at, bt := fpTerm(a[0]), fpTerm(a[1])
		return &sym{"(fp.max " + at + " " + bt + ")", SFP}
	}
	m["math.Ceil"] = func(fr *frame, a []value) value {
		if x, ok := a[0].(float64); ok {
			return math.Ceil(x)
		}
		return &sym{"(fp.roundToIntegral RTP " + fpTerm(a[0]) + ")", SFP}
	}
	m["math.Floor"] = func(fr *frame, a []value) value {
		if x, ok := a[0].(float64); ok {
			return math.Floor(x)
		}
		return &sym{"(fp.roundToIntegral RTN " + fpTerm(a[0]) + ")", SFP}
	}
	m["math.Abs"] = func(fr *frame, a []value) value {
		if x, ok := a[0].(float64); ok {
			return math.Abs(x)
		}
		return &sym{"(fp.abs " + fpTerm(a[0]) + ")", SFP}
	}

	conc1 := func(name string, f func(string) string) {
		m[name] = func(fr *frame, a []value) value {
			s, ok := a[0].(string)
			if !ok {
				panic(unsupported{name + " on symbolic"})
			}
			return f(s)
		}
	}
	conc1("path.Base", path.Base)
	conc1("path.Dir", path.Dir)
	conc1("path.Clean", path.Clean)
	conc1("path/filepath.Base", filepath.Base)
	conc1("path/filepath.Dir", filepath.Dir)
	conc1("path/filepath.Clean", filepath.Clean)
	m["path/filepath.IsAbs"] = func(fr *frame, a []value) value {
		s, ok := a[0].(string)
		if !ok {
			return boolSym("(str.prefixof \"/\" " + strTerm(a[0]) + ")")
		}
		return filepath.IsAbs(s)
	}
	m["path/filepath.Abs"] = func(fr *frame, a []value) value {
		s, ok := a[0].(string)
		if !ok {
			panic(unsupported{"filepath.Abs symbolic"})
		}
		if filepath.IsAbs(s) {
			return tuple{filepath.Clean(s), iface{}}
		}
		return tuple{filepath.Join("/cwd", s), iface{}}
	}
	join := func(fr *frame, a []value) value {
		var ss []string
		for _, e := range variadic(a[0]) {
			s, ok := e.(string)
			if !ok {
				panic(unsupported{"path.Join symbolic"})
			}
			ss = append(ss, s)
		}
		return path.Join(ss...)
	}
	m["path.Join"] = join
	m["path/filepath.Join"] = join
	m["net.SplitHostPort"] = func(fr *frame, a []value) value {
		s, ok := a[0].(string)
		if !ok {
			panic(unsupported{"SplitHostPort symbolic"})
		}
		h, p, err := net.SplitHostPort(s)
		if err != nil {
			return tuple{h, p, fr.r.newError(err.Error())}
		}
		return tuple{h, p, iface{}}
	}
	m["sort.Strings"] = func(fr *frame, a []value) value {
		xs := variadic(a[0])
		ss := make([]string, len(xs))
		for i, x := range xs {
			s, ok := x.(string)
			if !ok {
				panic(unsupported{"sort.Strings symbolic"})
			}
			ss[i] = s
		}
		sort.Strings(ss)
		for i := range xs {
			xs[i] = ss[i]
		}
		return nil
	}

	// base64: concrete input is coded with the receiver's real alphabet/padding; symbolic input goes
	// through uninterpreted functions per encoding kind, with the round trip dec_k(enc_k(x)) = x
	// applied syntactically (decoding something encoded with ANOTHER alphabet stays unconstrained)
	b64kind := func(recv value) (string, *base64.Encoding) {
		p, _ := recv.(*value)
		if p == nil {
			return "std", base64.StdEncoding
		}
		st, ok := (*p).(structure)
		if !ok || len(st) < 3 {
			return "std", base64.StdEncoding
		}
		url := false
		if arr, ok := st[0].(array); ok && len(arr) == 64 {
			if c, ok := arr[62].(uint64); ok && c == '-' {
				url = true
			}
		}
		raw := false
		if pc, ok := st[2].(int64); ok && pc == -1 {
			raw = true
		}
		switch {
		case url && raw:
			return "rawurl", base64.RawURLEncoding
		case url:
			return "url", base64.URLEncoding
		case raw:
			return "rawstd", base64.RawStdEncoding
		}
		return "std", base64.StdEncoding
	}
	m["(*encoding/base64.Encoding).DecodeString"] = func(fr *frame, a []value) value {
		r := fr.r
		kind, enc := b64kind(a[0])
		if s, ok := a[1].(string); ok {
			b, err := enc.DecodeString(s)
			if err != nil {
				return tuple{bytesToValues(string(b)), r.newError(err.Error())}
			}
			return tuple{bytesToValues(string(b)), iface{}}
		}
		st := a[1].(*sym).t
		if pre := "(b64_enc_" + kind + " "; strings.HasPrefix(st, pre) && strings.HasSuffix(st, ")") {
			return tuple{&sym{st[len(pre) : len(st)-1], SBytes}, iface{}}
		}
		r.declareOnce("b64_ok_"+kind, "(declare-fun b64_ok_"+kind+" (String) Bool)")
		r.declareOnce("b64_dec_"+kind, "(declare-fun b64_dec_"+kind+" (String) String)")
		if r.branch(boolSym("(b64_ok_" + kind + " " + st + ")")) {
			return tuple{&sym{"(b64_dec_" + kind + " " + st + ")", SBytes}, iface{}}
		}
		return tuple{[]value{}, r.newError("illegal base64 data")}
	}
	m["(*encoding/base64.Encoding).EncodeToString"] = func(fr *frame, a []value) value {
		r := fr.r
		kind, enc := b64kind(a[0])
		if bs, ok := a[1].([]value); ok {
			if s, ok := goBytes(bs); ok {
				return enc.EncodeToString([]byte(s))
			}
		}
		r.declareOnce("b64_enc_"+kind, "(declare-fun b64_enc_"+kind+" (String) String)")
		x := strTerm(a[1])
		t := "(b64_enc_" + kind + " " + x + ")"
		if _, ok := r.stash["b64len:"+t]; !ok {
			// the length of an encoding is a function of the input length
			r.stash["b64len:"+t] = true
			if kind == "std" || kind == "url" {
				r.assertPC("(= (str.len " + t + ") (* 4 (div (+ (str.len " + x + ") 2) 3)))")
			} else {
				r.assertPC("(= (str.len " + t + ") (div (+ (* 4 (str.len " + x + ")) 2) 3))")
			}
		}
		return strSym(t)
	}

	m["(syscall.Signal).String"] = func(fr *frame, a []value) value {
		if n, ok := a[0].(int64); ok {
			return syscall.Signal(n).String()
		}
		return "signal"
	}
	m["(syscall.Signal).Signal"] = func(fr *frame, a []value) value { return nil }

	// os: environment comes from the harness (verifSetenv); default empty
	m["os.Getenv"] = func(fr *frame, a []value) value {
		if v, ok := fr.r.stash["env:"+toString(a[0])]; ok {
			return v
		}
		return ""
	}
	m["os.LookupEnv"] = func(fr *frame, a []value) value {
		if v, ok := fr.r.stash["env:"+toString(a[0])]; ok {
			return tuple{v, true}
		}
		return tuple{"", false}
	}
	m["os.Setenv"] = func(fr *frame, a []value) value {
		fr.r.stash["env:"+toString(a[0])] = a[1]
		return iface{}
	}
	m["verif:verifSetenv"] = func(fr *frame, a []value) value {
		fr.r.stash["env:"+toString(a[0])] = a[1]
		return nil
	}
	m["os.Environ"] = func(fr *frame, a []value) value {
		var ks []string
		for k := range fr.r.stash {
			if strings.HasPrefix(k, "env:") {
				ks = append(ks, k)
			}
		}
		sort.Strings(ks)
		var out []value
		for _, k := range ks {
			out = append(out, catStr([]value{strings.TrimPrefix(k, "env:") + "=", fr.r.stash[k]}))
		}
		return out
	}
	m["os.Stat"] = func(fr *frame, a []value) value {
		return tuple{iface{}, fr.r.newError("stat " + toString(a[0]) + ": no such file or directory")}
	}
	m["os.Lstat"] = m["os.Stat"]
	m["os.Getpid"] = func(fr *frame, a []value) value { return int64(4242) }
	m["os.Exit"] = func(fr *frame, a []value) value {
		panic(targetPanic{msg: fmt.Sprintf("os.Exit(%v)", a[0])})
	}
	m["os.IsNotExist"] = func(fr *frame, a []value) value {
		it, _ := a[0].(iface)
		if it.t == nil {
			return false
		}
		if s := fr.r.errorString(fr, it); strings.Contains(s, "no such file") || strings.Contains(s, "not exist") {
			return true
		}
		return false
	}
	m["os.IsPermission"] = func(fr *frame, a []value) value {
		it, _ := a[0].(iface)
		if it.t == nil {
			return false
		}
		if s := fr.r.errorString(fr, it); strings.Contains(s, "permission denied") {
			return true
		}
		return false
	}

	// context.WithValue without reflectlite
	m["context.WithValue"] = func(fr *frame, a []value) value {
		r := fr.r
		parent, _ := a[0].(iface)
		if parent.t == nil {
			panic(targetPanic{msg: "cannot create context from nil parent"})
		}
		key, _ := a[1].(iface)
		if key.t == nil {
			panic(targetPanic{msg: "nil key"})
		}
		t := r.e.namedType("context", "valueCtx")
		var s value = structure{parent, a[1], a[2]}
		return iface{t: types.NewPointer(t), v: &s}
	}
}

func (r *run) declareOnce(key, decl string) {
	// declarations live in the run's push scope; re-declare per run
	if _, ok := r.stash["decl:"+key]; ok {
		return
	}
	r.stash["decl:"+key] = true
	r.solver.DeclareRaw(decl)
}

func (r *run) newUUID() value {
	r.uuidCount++
	arr := make(array, 16)
	for i := range arr {
		arr[i] = uint64(0)
	}
	arr[0] = uint64(0xab) // hex letters, so that case variants of the textual form differ
	arr[1] = uint64(0xcd)
	arr[6] = uint64(0x40)
	arr[8] = uint64(0x80)
	arr[14] = uint64(byte(r.uuidCount >> 8))
	arr[15] = uint64(byte(r.uuidCount))
	return arr
}

func parseUUID(s string) ([16]byte, error) {
	var u [16]byte
	if len(s) != 36 || s[8] != '-' || s[13] != '-' || s[18] != '-' || s[23] != '-' {
		return u, fmt.Errorf("invalid UUID length/format: %d", len(s))
	}
	hexs := strings.ReplaceAll(s, "-", "")
	for i := 0; i < 16; i++ {
		var b byte
		for j := 0; j < 2; j++ {
			c := hexs[2*i+j]
			var v byte
			switch {
			case c >= '0' && c <= '9':
				v = c - '0'
			case c >= 'a' && c <= 'f':
				v = c - 'a' + 10
			case c >= 'A' && c <= 'F':
				v = c - 'A' + 10
			default:
				return u, fmt.Errorf("invalid UUID format")
			}
			b = b<<4 | v
		}
		u[i] = b
	}
	return u, nil
}
