package main

// Symbolic SSA interpreter: one `run` executes one path (one set of
// decisions) of a harness function; symbolic values are SMT terms, the
// path condition lives in the solver's assertion stack.

import (
	"fmt"
	"reflect"
	"go/token"
	"go/types"
	"os"
	"strconv"
	"runtime/debug"
	"strings"

	"golang.org/x/tools/go/ssa"
)

// packages whose internals are executed without scheduling points (their
// operations are linearizable; only the blocking operations they expose matter).
var atomicPkgs = map[string]bool{"context": true, "sync": true}

type continuation int

const (
	kNext continuation = iota
	kReturn
	kJump
)

// control-flow panics used by the engine
type targetPanic struct {
	v   value
	msg string
	pos string
}
type pathEnd struct{ reason string }
type unsupported struct{ msg string }
type exitPanic struct{ code int }

type deferred struct {
	fn    value
	args  []value
	instr *ssa.Defer
	tail  *deferred
}

type frame struct {
	r                *run
	th               *thread
	caller           *frame
	fn               *ssa.Function
	block, prevBlock *ssa.BasicBlock
	env              map[ssa.Value]value
	locals           []value
	defers           *deferred
	result           value
	panicking        bool
	panic            interface{}
	phitemps         []value
	callpos          token.Pos
	lenientInit      bool
}

// lenientCall is used inside initialisers of non-module packages: a call the
// engine cannot execute (reflection, runtime internals) yields the zero value
// instead of aborting, so the remaining package-level variables still get
// their values (e.g. io.EOF, strconv.ErrSyntax).
func (r *run) lenientCall(fr *frame, instr *ssa.Call) (res value) {
	defer func() {
		if p := recover(); p != nil {
			if _, ok := p.(pathEnd); ok {
				panic(p)
			}
			if t := instr.Type(); t != nil {
				if tup, ok := t.(*types.Tuple); ok && tup.Len() == 0 {
					res = nil
				} else {
					res = zero(t)
				}
			}
		}
	}()
	fn, args := r.prepareCall(fr, &instr.Call, instr)
	return r.call(fr, instr.Pos(), fn, args)
}

func (fr *frame) get(key ssa.Value) value {
	switch key := key.(type) {
	case nil:
		return nil
	case *ssa.Function, *ssa.Builtin:
		return key
	case *ssa.Const:
		return constValue(key)
	case *ssa.Global:
		return fr.r.globalAddr(key)
	}
	if r, ok := fr.env[key]; ok {
		return r
	}
	panic(fmt.Sprintf("get: no value for %T: %v in %s", key, key.Name(), fr.fn))
}

func (fr *frame) pos(instr ssa.Instruction) string {
	if fr == nil {
		return ""
	}
	if instr == nil || reflect.ValueOf(instr).IsNil() {
		return fr.fn.String()
	}
	p := instr.Pos()
	if p == token.NoPos {
		// search backwards for any position in block
		return fr.fn.String()
	}
	return fr.r.e.prog.Fset.Position(p).String()
}

func (fr *frame) runDefer(d *deferred) {
	var ok bool
	defer func() {
		if !ok {
			p := recover()
			if isEnginePanic(p) {
				panic(p)
			}
			fr.panicking = true
			fr.panic = p
		}
	}()
	fr.r.call(fr, d.instr.Pos(), d.fn, d.args)
	ok = true
}

func isEnginePanic(p interface{}) bool {
	switch p.(type) {
	case pathEnd, unsupported:
		return true
	}
	return false
}

func (fr *frame) runDefers() {
	for d := fr.defers; d != nil; d = d.tail {
		fr.runDefer(d)
	}
	fr.defers = nil
	if fr.panicking {
		panic(fr.panic)
	}
}

func (r *run) lookupMethod(typ types.Type, meth *types.Func) *ssa.Function {
	return r.e.prog.LookupMethod(typ, meth.Pkg(), meth.Name())
}

func (r *run) tick(fr *frame, instr ssa.Instruction) {
	if r.dead {
		panic(pathEnd{"dead"})
	}
	if fr.th != nil && r.cur != fr.th {
		fmt.Fprintf(os.Stderr, "ENGINE BUG: thread %s executes while %s holds the baton at %s\n", fr.th.name, r.cur.name, fr.pos(instr))
		panic(pathEnd{"baton"})
	}
	r.steps++
	if r.steps > r.e.opts.maxSteps {
		r.inconclusive("step budget exceeded at " + fr.pos(instr))
		panic(pathEnd{"step budget"})
	}
}

func visitInstr(fr *frame, instr ssa.Instruction) continuation {
	r := fr.r
	r.tick(fr, instr)
	switch instr := instr.(type) {
	case *ssa.DebugRef:
		// no-op

	case *ssa.UnOp:
		fr.env[instr] = r.unop(fr, instr, fr.get(instr.X))

	case *ssa.BinOp:
		fr.env[instr] = r.binop(fr, instr.Op, instr.X.Type(), fr.get(instr.X), fr.get(instr.Y), instr)

	case *ssa.Call:
		if fr.lenientInit {
			fr.env[instr] = r.lenientCall(fr, instr)
		} else {
			fn, args := r.prepareCall(fr, &instr.Call, instr)
			fr.env[instr] = r.call(fr, instr.Pos(), fn, args)
		}

	case *ssa.ChangeInterface:
		fr.env[instr] = fr.get(instr.X)

	case *ssa.ChangeType:
		fr.env[instr] = fr.get(instr.X)

	case *ssa.Convert:
		fr.env[instr] = r.conv(instr.Type(), instr.X.Type(), fr.get(instr.X))

	case *ssa.MultiConvert:
		fr.env[instr] = r.conv(instr.Type(), instr.X.Type(), fr.get(instr.X))

	case *ssa.SliceToArrayPointer:
		panic(unsupported{"SliceToArrayPointer"})

	case *ssa.MakeInterface:
		fr.env[instr] = iface{t: instr.X.Type(), v: fr.get(instr.X)}

	case *ssa.Extract:
		fr.env[instr] = fr.get(instr.Tuple).(tuple)[instr.Index]

	case *ssa.Slice:
		fr.env[instr] = r.slice(fr, instr, fr.get(instr.X), fr.get(instr.Low), fr.get(instr.High), fr.get(instr.Max))

	case *ssa.Return:
		switch len(instr.Results) {
		case 0:
		case 1:
			fr.result = fr.get(instr.Results[0])
		default:
			var res []value
			for _, r := range instr.Results {
				res = append(res, fr.get(r))
			}
			fr.result = tuple(res)
		}
		fr.block = nil
		return kReturn

	case *ssa.RunDefers:
		fr.runDefers()

	case *ssa.Panic:
		v := fr.get(instr.X)
		panic(targetPanic{v: v, msg: r.panicString(fr, v), pos: fr.pos(instr)})

	case *ssa.Send:
		r.chanSend(fr, fr.get(instr.Chan).(*chanv), copyVal(fr.get(instr.X)))

	case *ssa.Store:
		addr := fr.get(instr.Addr).(*value)
		if addr == nil {
			panic(targetPanic{msg: "nil pointer dereference (store)", pos: fr.pos(instr)})
		}
		store(deref(instr.Addr.Type()), addr, fr.get(instr.Val))

	case *ssa.If:
		succ := 1
		if r.truth(fr.get(instr.Cond)) {
			succ = 0
		}
		fr.prevBlock, fr.block = fr.block, fr.block.Succs[succ]
		return kJump

	case *ssa.Jump:
		fr.prevBlock, fr.block = fr.block, fr.block.Succs[0]
		return kJump

	case *ssa.Defer:
		fn, args := r.prepareCall(fr, &instr.Call, instr)
		defers := &fr.defers
		if instr.DeferStack != nil {
			if into := fr.get(instr.DeferStack); into != nil {
				defers = into.(**deferred)
			}
		}
		*defers = &deferred{fn: fn, args: args, instr: instr, tail: *defers}

	case *ssa.Go:
		fn, args := r.prepareCall(fr, &instr.Call, instr)
		r.spawn(fr, fn, args, false, fr.pos(instr))

	case *ssa.MakeChan:
		fr.env[instr] = r.newChan(int(asInt64(r.concretize(fr.get(instr.Size), "chan size"))))

	case *ssa.Alloc:
		var addr *value
		if instr.Heap {
			addr = new(value)
			fr.env[instr] = addr
		} else {
			addr = fr.env[instr].(*value)
		}
		*addr = zero(deref(instr.Type()))

	case *ssa.MakeSlice:
		capv := int(asInt64(r.concretize(fr.get(instr.Cap), "slice cap")))
		lenv := int(asInt64(r.concretize(fr.get(instr.Len), "slice len")))
		if capv > 1<<24 {
			panic(unsupported{fmt.Sprintf("MakeSlice cap %d too large at %s", capv, fr.pos(instr))})
		}
		slice := make([]value, capv)
		tElt := instr.Type().Underlying().(*types.Slice).Elem()
		for i := range slice {
			slice[i] = zero(tElt)
		}
		fr.env[instr] = slice[:lenv]

	case *ssa.MakeMap:
		fr.env[instr] = &mapv{keyType: instr.Type().Underlying().(*types.Map).Key()}

	case *ssa.Range:
		fr.env[instr] = r.rangeIter(fr, fr.get(instr.X), instr.X.Type())

	case *ssa.Next:
		fr.env[instr] = fr.get(instr.Iter).(iter).next(r)

	case *ssa.FieldAddr:
		p := fr.get(instr.X).(*value)
		if p == nil {
			panic(targetPanic{msg: "nil pointer dereference (field " + fieldName(instr.X.Type(), instr.Field) + ")", pos: fr.pos(instr)})
		}
		fr.env[instr] = &(*p).(structure)[instr.Field]

	case *ssa.Field:
		fr.env[instr] = fr.get(instr.X).(structure)[instr.Field]

	case *ssa.IndexAddr:
		x := fr.get(instr.X)
		idx := fr.get(instr.Index)
		switch x := x.(type) {
		case []value:
			i := r.indexIn(fr, instr, idx, len(x))
			fr.env[instr] = &x[i]
		case *value: // *array
			if x == nil {
				panic(targetPanic{msg: "nil pointer dereference (array)", pos: fr.pos(instr)})
			}
			a := (*x).(array)
			i := r.indexIn(fr, instr, idx, len(a))
			fr.env[instr] = &a[i]
		case *sym:
			panic(unsupported{"IndexAddr on symbolic byte sequence at " + fr.pos(instr)})
		default:
			panic(fmt.Sprintf("unexpected x type in IndexAddr: %T", x))
		}

	case *ssa.Index:
		x := fr.get(instr.X)
		idx := fr.get(instr.Index)
		switch x := x.(type) {
		case array:
			fr.env[instr] = x[r.indexIn(fr, instr, idx, len(x))]
		case string:
			if _, ok := idx.(*sym); ok {
				fr.env[instr] = r.symStringIndex(fr, instr, &sym{smtStr(x), SStr}, idx)
			} else {
				i := asInt64(idx)
				if i < 0 || i >= int64(len(x)) {
					panic(targetPanic{msg: "index out of range", pos: fr.pos(instr)})
				}
				fr.env[instr] = uint64(x[i])
			}
		case *sym:
			fr.env[instr] = r.symStringIndex(fr, instr, x, idx)
		default:
			panic(fmt.Sprintf("unexpected x type in Index: %T", x))
		}

	case *ssa.Lookup:
		fr.env[instr] = r.lookup(fr, instr, fr.get(instr.X), fr.get(instr.Index))

	case *ssa.MapUpdate:
		m := fr.get(instr.Map).(*mapv)
		if m == nil {
			panic(targetPanic{msg: "assignment to entry in nil map", pos: fr.pos(instr)})
		}
		r.mapUpdate(m, fr.get(instr.Key), fr.get(instr.Value))

	case *ssa.TypeAssert:
		fr.env[instr] = r.typeAssert(fr, instr, fr.get(instr.X).(iface))

	case *ssa.MakeClosure:
		var bindings []value
		for _, binding := range instr.Bindings {
			bindings = append(bindings, fr.get(binding))
		}
		fr.env[instr] = &closure{instr.Fn.(*ssa.Function), bindings}

	case *ssa.Phi:
		panic("unreachable: phi")

	case *ssa.Select:
		fr.env[instr] = r.selectStmt(fr, instr)

	default:
		panic(unsupported{fmt.Sprintf("unexpected instruction: %T", instr)})
	}
	return kNext
}

func deref(t types.Type) types.Type {
	if p, ok := t.Underlying().(*types.Pointer); ok {
		return p.Elem()
	}
	panic(fmt.Sprintf("deref: %s is not a pointer", t))
}

func fieldName(t types.Type, i int) string {
	if p, ok := t.Underlying().(*types.Pointer); ok {
		t = p.Elem()
	}
	if s, ok := t.Underlying().(*types.Struct); ok && i < s.NumFields() {
		return s.Field(i).Name()
	}
	return fmt.Sprint(i)
}

// indexIn resolves an index (concrete or symbolic) against a concrete length,
// forking over the feasible concrete indices and out-of-range.
func (r *run) indexIn(fr *frame, instr ssa.Instruction, idx value, n int) int {
	if s, ok := idx.(*sym); ok {
		// decide in-range first
		inRange := smtAnd(sx(">=", s.t, "0"), sx("<", s.t, smtInt(int64(n))))
		if !r.branch(&sym{inRange, SBool}) {
			panic(targetPanic{msg: "index out of range (symbolic)", pos: fr.pos(instr)})
		}
		if n > 64 {
			panic(unsupported{"symbolic index into large slice at " + fr.pos(instr)})
		}
		for i := 0; i < n-1; i++ {
			if r.branch(&sym{sx("=", s.t, smtInt(int64(i))), SBool}) {
				return i
			}
		}
		return n - 1
	}
	i := asInt64(idx)
	if i < 0 || i >= int64(n) {
		panic(targetPanic{msg: fmt.Sprintf("index out of range [%d] with length %d", i, n), pos: fr.pos(instr)})
	}
	return int(i)
}

func (r *run) prepareCall(fr *frame, call *ssa.CallCommon, instr ssa.Instruction) (fn value, args []value) {
	v := fr.get(call.Value)
	if call.Method == nil {
		fn = v
	} else {
		recv := v.(iface)
		if recv.t == nil {
			panic(targetPanic{msg: "method " + call.Method.Name() + " invoked on nil interface", pos: fr.pos(instr)})
		}
		f := r.lookupMethod(recv.t, call.Method)
		if f == nil {
			panic(fmt.Sprintf("method set for dynamic type %v does not contain %s", recv.t, call.Method))
		}
		fn = f
		args = append(args, recv.v)
	}
	for _, arg := range call.Args {
		args = append(args, fr.get(arg))
	}
	return
}

func (r *run) call(caller *frame, callpos token.Pos, fn value, args []value) value {
	switch fn := fn.(type) {
	case *ssa.Function:
		if fn == nil {
			panic(targetPanic{msg: "call of nil function", pos: r.e.prog.Fset.Position(callpos).String()})
		}
		return r.callSSA(caller, callpos, fn, args, nil)
	case *closure:
		return r.callSSA(caller, callpos, fn.Fn, args, fn.Env)
	case *ssa.Builtin:
		return r.callBuiltin(caller, callpos, fn, args)
	}
	panic(fmt.Sprintf("cannot call %T", fn))
}

func (r *run) callSSA(caller *frame, callpos token.Pos, fn *ssa.Function, args []value, env []value) value {
	return r.callSSAx(caller, callpos, fn, args, env, false)
}

// callSSAx: noIntrinsic runs the SSA body even if an intrinsic is registered for fn.
func (r *run) callSSAx(caller *frame, callpos token.Pos, fn *ssa.Function, args []value, env []value, noIntrinsic bool) value {
	var th *thread
	if caller != nil {
		th = caller.th
	} else {
		th = r.cur
	}
	fr := &frame{r: r, th: th, caller: caller, fn: fn, callpos: callpos}
	if fn.Parent() == nil {
		name := fn.String()
		if fn.Pkg != nil && fn.Name() == "init" && fn.Pkg.Func("init") == fn {
			if !r.e.initAllowed(fn.Pkg) {
				return nil
			}
			r.initDone[fn.Pkg] = true
		}
		if st, ok := r.stubs[name]; ok {
			return r.call(caller, callpos, st, args)
		}
		if ext := r.e.intrinsic(fn, name); ext != nil && !noIntrinsic {
			r.e.noteIntrinsic(name)
			return ext(fr, args)
		}
		if fn.Blocks == nil {
			stack := ""
			for c := caller; c != nil && len(stack) < 600; c = c.caller {
				stack += " <- " + c.fn.String()
			}
			panic(unsupported{"no code for function: " + name + " (called from" + stack + ")"})
		}
	}
	if fn.TypeParams().Len() > 0 && len(fn.TypeArgs()) == 0 {
		panic(unsupported{"uninstantiated generic " + fn.String()})
	}
	r.e.noteFunc(fn)
	if r.traceCalls && fn.Pkg != nil && strings.HasPrefix(fn.Pkg.Pkg.Path(), modulePath) && fn.Name() != "init" {
		d := 0
		for c := caller; c != nil; c = c.caller {
			d++
		}
		if d < traceDepth {
			var as []string
			for _, a := range args {
				as = append(as, truncate(toString(a), 40))
			}
			fmt.Fprintf(os.Stderr, "  [%s] %s%s(%s)\n", th.name, strings.Repeat(". ", d), fn.String(), strings.Join(as, ", "))
		}
	}
	if fn.Pkg != nil && atomicPkgs[fn.Pkg.Pkg.Path()] {
		r.atomicDepth++
		defer func() { r.atomicDepth-- }()
	}
	depth := 0
	for c := caller; c != nil; c = c.caller {
		depth++
	}
	if depth > 400 {
		panic(unsupported{"call depth > 400 at " + fn.String()})
	}

	if fn.Pkg != nil && fn.Name() == "init" && fn.Parent() == nil && !strings.HasPrefix(fn.Pkg.Pkg.Path(), modulePath) {
		fr.lenientInit = true
	}
	fr.env = make(map[ssa.Value]value, 16)
	fr.block = fn.Blocks[0]
	fr.locals = make([]value, len(fn.Locals))
	for i, l := range fn.Locals {
		fr.locals[i] = zero(deref(l.Type()))
		fr.env[l] = &fr.locals[i]
	}
	for i, p := range fn.Params {
		fr.env[p] = args[i]
	}
	for i, fv := range fn.FreeVars {
		fr.env[fv] = env[i]
	}
	for fr.block != nil {
		runFrame(fr)
	}
	return fr.result
}

func runFrame(fr *frame) {
	defer func() {
		if fr.block == nil {
			return // normal return
		}
		p := recover()
		if isEnginePanic(p) {
			panic(p)
		}
		if _, ok := p.(targetPanic); !ok {
			if _, ok2 := p.(exitPanic); !ok2 {
				// interpreter bug or Go runtime error inside the engine: convert to unsupported
				msg := fmt.Sprintf("engine panic in %s: %v", fr.fn, p)
				if fr.r.e.opts.debug {
					fmt.Fprintln(os.Stderr, msg)
					os.Stderr.Write(debug.Stack())
				}
				panic(unsupported{msg})
			}
		}
		fr.panicking = true
		fr.panic = p
		fr.runDefers()
		fr.block = fr.fn.Recover
		if fr.block == nil {
			// recovered, function without named results: return zero values
			fr.result = zero(fr.fn.Signature.Results())
			if fr.fn.Signature.Results().Len() == 0 {
				fr.result = nil
			}
		}
	}()

	for {
		nonPhis := executePhis(fr)
		for _, instr := range nonPhis {
			if visitInstr(fr, instr) == kReturn {
				return
			}
		}
	}
}

func executePhis(fr *frame) []ssa.Instruction {
	firstNonPhi := -1
	for i, instr := range fr.block.Instrs {
		if _, ok := instr.(*ssa.Phi); !ok {
			firstNonPhi = i
			break
		}
	}
	nonPhis := fr.block.Instrs[firstNonPhi:]
	if firstNonPhi > 0 {
		phis := fr.block.Instrs[:firstNonPhi]
		predIndex := -1
		for i, p := range fr.block.Preds {
			if p == fr.prevBlock {
				predIndex = i
				break
			}
		}
		fr.phitemps = fr.phitemps[:0]
		for _, phi := range phis {
			phi := phi.(*ssa.Phi)
			fr.phitemps = append(fr.phitemps, fr.get(phi.Edges[predIndex]))
		}
		for i, phi := range phis {
			fr.env[phi.(*ssa.Phi)] = fr.phitemps[i]
		}
	}
	return nonPhis
}

func (r *run) doRecover(caller *frame) value {
	if caller != nil && !caller.panicking && caller.caller != nil && caller.caller.panicking {
		caller.caller.panicking = false
		p := caller.caller.panic
		caller.caller.panic = nil
		switch p := p.(type) {
		case targetPanic:
			if p.v != nil {
				return p.v
			}
			return iface{types.Typ[types.String], p.msg}
		case exitPanic:
			panic(p)
		default:
			panic(fmt.Sprintf("unexpected panic type %T in target call to recover()", p))
		}
	}
	return iface{}
}

// panicString renders a panic value for reports.
func (r *run) panicString(fr *frame, v value) string {
	if it, ok := v.(iface); ok {
		if it.t == nil {
			return "panic(nil)"
		}
		if s, ok := it.v.(string); ok {
			return s
		}
		if s, ok := it.v.(*sym); ok {
			return s.String()
		}
		// error?
		defer func() { recover() }()
		if s := r.errorString(fr, it); s != "" {
			return s
		}
	}
	return toString(v)
}

// errorString calls Error() (or String()) on an interface value, returning "" if unavailable.
func (r *run) errorString(fr *frame, it iface) string {
	if it.t == nil {
		return "<nil>"
	}
	for _, mname := range []string{"Error", "String"} {
		ms := r.e.prog.MethodSets.MethodSet(it.t)
		for i := 0; i < ms.Len(); i++ {
			sel := ms.At(i)
			if sel.Obj().Name() == mname {
				f := r.e.prog.MethodValue(sel)
				if f == nil {
					continue
				}
				res := r.call(fr, token.NoPos, f, []value{it.v})
				switch s := res.(type) {
				case string:
					return s
				case *sym:
					return s.String()
				}
			}
		}
	}
	return ""
}

func shortPos(p string) string {
	return strings.TrimPrefix(p, "/repo/")
}

// traceDepth: call depth shown by -trace (VERIF_TRACE_DEPTH, default 12)
var traceDepth = func() int {
	if n, err := strconv.Atoi(os.Getenv("VERIF_TRACE_DEPTH")); err == nil && n > 0 {
		return n
	}
	return 12
}()
