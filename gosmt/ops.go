package main

import (
	"fmt"
	"sync"
	"sync/atomic"
	"go/constant"
	"go/token"
	"go/types"
	"math"
	"strings"
	"unicode/utf8"

	"golang.org/x/tools/go/ssa"
)

func constValue(c *ssa.Const) value {
	if c.Value == nil {
		return zero(c.Type())
	}
	if t, ok := c.Type().Underlying().(*types.Basic); ok {
		switch {
		case t.Info()&types.IsBoolean != 0:
			return constant.BoolVal(c.Value)
		case t.Info()&types.IsString != 0:
			if c.Value.Kind() == constant.String {
				return constant.StringVal(c.Value)
			}
			return string(rune(c.Int64()))
		case t.Info()&types.IsFloat != 0:
			f := c.Float64()
			if t.Kind() == types.Float32 {
				f = float64(float32(f))
			}
			return f
		case t.Info()&types.IsComplex != 0:
			return c.Complex128()
		case t.Info()&types.IsUnsigned != 0:
			return c.Uint64()
		case t.Info()&types.IsInteger != 0:
			return c.Int64()
		}
	}
	panic(fmt.Sprintf("constValue: %s", c))
}

// truth turns a bool value into a concrete decision (forking on symbolic ones).
func (r *run) truth(v value) bool {
	switch v := v.(type) {
	case bool:
		return v
	case *sym:
		return r.branch(v)
	}
	panic(fmt.Sprintf("truth: %T", v))
}

// concretize forces an integer value to be concrete by forking over a small range.
func (r *run) concretize(v value, what string) value {
	s, ok := v.(*sym)
	if !ok {
		return v
	}
	for i := int64(0); i < int64(r.e.opts.concretizeMax); i++ {
		if r.branch(&sym{sx("=", s.t, smtInt(i)), SBool}) {
			return i
		}
	}
	r.inconclusive("concretize(" + what + ") exceeded range")
	panic(pathEnd{"concretize range"})
}

func (r *run) slice(fr *frame, instr ssa.Instruction, x, lo, hi, max value) value {
	// symbolic sequence or symbolic bounds on string
	sx_, xIsSym := x.(*sym)
	if str, ok := x.(string); ok && (isSym(lo) || isSym(hi)) {
		sx_ = &sym{smtStr(str), SStr}
		xIsSym = true
	}
	if xIsSym {
		l := "0"
		if lo != nil {
			l = intTerm(lo)
		}
		n := "(str.len " + sx_.t + ")"
		h := n
		if hi != nil {
			h = intTerm(hi)
		}
		okc := smtAnd(sx("<=", "0", l), sx("<=", l, h), sx("<=", h, n))
		if !r.branch(&sym{okc, SBool}) {
			panic(targetPanic{msg: "slice bounds out of range (symbolic)", pos: fr.pos(instr)})
		}
		if lo == nil && hi == nil {
			return sx_
		}
		if rec, ok := r.repeats[sx_.t]; ok && len(rec.lit) == 1 && sx_.sort == SStr {
			// any substring of n copies of one byte is (h-l) copies of it
			return r.newRepeat(rec.lit, sx("-", h, l), "slice of repeat")
		}
		return &sym{sx("str.substr", sx_.t, l, sx("-", h, l)), sx_.sort}
	}
	var Len, Cap int
	switch x := x.(type) {
	case string:
		Len = len(x)
	case []value:
		Len = len(x)
		Cap = cap(x)
	case *value:
		if x == nil {
			panic(targetPanic{msg: "nil pointer dereference (slice of array)", pos: fr.pos(instr)})
		}
		a := (*x).(array)
		Len = len(a)
		Cap = cap(a)
	}
	if _, isStr := x.(string); !isStr {
		// symbolic bounds on a concrete slice: concretize
		lo = r.concretizeOpt(lo)
		hi = r.concretizeOpt(hi)
		max = r.concretizeOpt(max)
	}
	l := int64(0)
	if lo != nil {
		l = asInt64(lo)
	}
	h := int64(Len)
	if hi != nil {
		h = asInt64(hi)
	}
	m := int64(Cap)
	if max != nil {
		m = asInt64(max)
	}
	switch x := x.(type) {
	case string:
		if l < 0 || h < l || h > int64(Len) {
			panic(targetPanic{msg: fmt.Sprintf("slice bounds out of range [%d:%d] with length %d", l, h, Len), pos: fr.pos(instr)})
		}
		return x[l:h]
	case []value:
		if l < 0 || h < l || h > m || m > int64(Cap) {
			panic(targetPanic{msg: fmt.Sprintf("slice bounds out of range [%d:%d:%d] with capacity %d", l, h, m, Cap), pos: fr.pos(instr)})
		}
		if x == nil {
			return []value(nil)
		}
		return x[l:h:m]
	case *value:
		a := (*x).(array)
		if l < 0 || h < l || h > m || m > int64(Cap) {
			panic(targetPanic{msg: "slice bounds out of range", pos: fr.pos(instr)})
		}
		return []value(a)[l:h:m]
	}
	panic(fmt.Sprintf("slice: unexpected X type: %T", x))
}

func (r *run) concretizeOpt(v value) value {
	if v == nil {
		return nil
	}
	return r.concretize(v, "slice bound")
}

func (r *run) symStringIndex(fr *frame, instr ssa.Instruction, s *sym, idx value) value {
	i := intTerm(idx)
	okc := smtAnd(sx("<=", "0", i), sx("<", i, "(str.len "+s.t+")"))
	if !r.branch(&sym{okc, SBool}) {
		panic(targetPanic{msg: "index out of range (symbolic string)", pos: fr.pos(instr)})
	}
	return &sym{"(str.to_code (str.at " + s.t + " " + i + "))", SInt}
}

// ---------------------------------------------------------------------------
// maps

func (r *run) mapFind(m *mapv, key value) *mapEntry {
	if m == nil {
		return nil
	}
	for _, e := range m.entries {
		eq := r.equalsV(m.keyType, e.key, key)
		if r.truth(eq) {
			return e
		}
	}
	return nil
}

func (r *run) lookup(fr *frame, instr *ssa.Lookup, x, idx value) value {
	switch x := x.(type) {
	case *mapv:
		var v value
		e := r.mapFind(x, idx)
		ok := e != nil
		if ok {
			v = copyVal(e.val)
		} else {
			v = zero(instr.X.Type().Underlying().(*types.Map).Elem())
		}
		if instr.CommaOk {
			v = tuple{v, ok}
		}
		return v
	case string:
		if _, ok := idx.(*sym); ok {
			return r.symStringIndex(fr, instr, &sym{smtStr(x), SStr}, idx)
		}
		i := asInt64(idx)
		if i < 0 || i >= int64(len(x)) {
			panic(targetPanic{msg: "index out of range", pos: fr.pos(instr)})
		}
		return uint64(x[i])
	case *sym:
		return r.symStringIndex(fr, instr, x, idx)
	}
	panic(fmt.Sprintf("unexpected x type in Lookup: %T", x))
}

func (r *run) mapUpdate(m *mapv, key, val value) {
	if e := r.mapFind(m, key); e != nil {
		e.val = val
		return
	}
	m.entries = append(m.entries, &mapEntry{key: key, val: val})
}

func (r *run) mapDelete(m *mapv, key value) {
	if m == nil {
		return
	}
	for i, e := range m.entries {
		if r.truth(r.equalsV(m.keyType, e.key, key)) {
			m.entries = append(m.entries[:i:i], m.entries[i+1:]...)
			return
		}
	}
}

type mapIter struct {
	entries []*mapEntry
	i       int
}

func (it *mapIter) next(r *run) tuple {
	if it.i >= len(it.entries) {
		return tuple{false, nil, nil}
	}
	e := it.entries[it.i]
	it.i++
	return tuple{true, e.key, copyVal(e.val)}
}

type stringIter struct {
	s string
	i int
}

func (it *stringIter) next(r *run) tuple {
	if it.i >= len(it.s) {
		return tuple{false, int64(0), int64(0)}
	}
	ch, n := utf8.DecodeRuneInString(it.s[it.i:])
	res := tuple{true, int64(it.i), int64(ch)}
	it.i += n
	return res
}

func (r *run) rangeIter(fr *frame, x value, t types.Type) iter {
	switch x := x.(type) {
	case *mapv:
		if x == nil {
			return &mapIter{}
		}
		ents := append([]*mapEntry(nil), x.entries...)
		if r.e.opts.permuteMaps && len(ents) > 1 && len(ents) <= 3 {
			// Go's iteration order is unspecified: choose a rotation/permutation
			k := r.choose(len(ents), "maporder")
			ents = append(ents[k:], ents[:k]...)
		}
		return &mapIter{entries: ents}
	case string:
		return &stringIter{s: x}
	case *sym:
		panic(unsupported{"range over symbolic string at " + fr.fn.String()})
	}
	panic(fmt.Sprintf("cannot range over %T", x))
}

// ---------------------------------------------------------------------------
// equality

// equalsV returns bool or *sym(Bool).
func (r *run) equalsV(t types.Type, x, y value) value {
	switch x := x.(type) {
	case bool:
		switch y := y.(type) {
		case bool:
			return x == y
		case *sym:
			if x {
				return y
			}
			return &sym{smtNot(y.t), SBool}
		}
	case int64:
		switch y := y.(type) {
		case int64:
			return x == y
		case *sym:
			return &sym{sx("=", smtInt(x), y.t), SBool}
		}
	case uint64:
		switch y := y.(type) {
		case uint64:
			return x == y
		case *sym:
			return &sym{sx("=", smtUint(x), y.t), SBool}
		}
	case float64:
		switch y := y.(type) {
		case float64:
			return x == y
		case *sym:
			return &sym{sx("fp.eq", fpLit(x), y.t), SBool}
		}
	case complex128:
		return x == y.(complex128)
	case string:
		switch y := y.(type) {
		case string:
			return x == y
		case *sym:
			return &sym{sx("=", smtStr(x), y.t), SBool}
		}
	case *sym:
		var yt string
		switch y := y.(type) {
		case *sym:
			yt = y.t
		case bool:
			if y {
				return x
			}
			return &sym{smtNot(x.t), SBool}
		case int64:
			yt = smtInt(y)
		case uint64:
			yt = smtUint(y)
		case string:
			yt = smtStr(y)
		case float64:
			return &sym{sx("fp.eq", x.t, fpLit(y)), SBool}
		default:
			panic(fmt.Sprintf("equals sym vs %T", y))
		}
		if x.sort == SFP {
			return &sym{sx("fp.eq", x.t, yt), SBool}
		}
		if x.t == yt {
			return true
		}
		if a, ok := parseSmtInt(x.t); ok {
			if b, ok := parseSmtInt(yt); ok {
				return a == b
			}
		}
		return &sym{sx("=", x.t, yt), SBool}
	case *value:
		return x == y.(*value)
	case *chanv:
		return x == y.(*chanv)
	case unsafePtr:
		return x == y.(unsafePtr)
	case structure:
		ys := y.(structure)
		tStruct := t.Underlying().(*types.Struct)
		var conj []string
		for i, n := 0, tStruct.NumFields(); i < n; i++ {
			f := tStruct.Field(i)
			if f.Name() == "_" {
				continue
			}
			e := r.equalsV(f.Type(), x[i], ys[i])
			switch e := e.(type) {
			case bool:
				if !e {
					return false
				}
			case *sym:
				conj = append(conj, e.t)
			}
		}
		if len(conj) == 0 {
			return true
		}
		return &sym{smtAnd(conj...), SBool}
	case array:
		ya := y.(array)
		tElt := t.Underlying().(*types.Array).Elem()
		var conj []string
		for i := range x {
			e := r.equalsV(tElt, x[i], ya[i])
			switch e := e.(type) {
			case bool:
				if !e {
					return false
				}
			case *sym:
				conj = append(conj, e.t)
			}
		}
		if len(conj) == 0 {
			return true
		}
		return &sym{smtAnd(conj...), SBool}
	case iface:
		yi := y.(iface)
		if !sameType(x.t, yi.t) {
			return false
		}
		if x.t == nil {
			return true
		}
		return r.equalsV(x.t, x.v, yi.v)
	}
	panic(targetPanic{msg: fmt.Sprintf("comparing uncomparable type %s (%T)", t, x)})
}

func (r *run) eqnil(t types.Type, x, y value) value {
	switch t.Underlying().(type) {
	case *types.Map:
		xm, _ := x.(*mapv)
		ym, _ := y.(*mapv)
		return (xm != nil) == (ym != nil)
	case *types.Signature:
		return isNilFunc(x) == isNilFunc(y)
	case *types.Slice:
		xn := isNilSlice(x)
		yn := isNilSlice(y)
		return xn == yn
	}
	return r.equalsV(t, x, y)
}

func isNilFunc(x value) bool {
	switch x := x.(type) {
	case *ssa.Function:
		return x == nil
	case *closure:
		return x == nil
	case *ssa.Builtin:
		return x == nil
	}
	return false
}

func isNilSlice(x value) bool {
	switch x := x.(type) {
	case []value:
		return x == nil
	case *sym:
		return false
	}
	return false
}

// ---------------------------------------------------------------------------
// floats

func fpLit(f float64) string {
	bits := math.Float64bits(f)
	return fmt.Sprintf("((_ to_fp 11 53) #x%016x)", bits)
}

func fpTerm(v value) string {
	switch v := v.(type) {
	case float64:
		return fpLit(v)
	case *sym:
		return v.t
	}
	panic(fmt.Sprintf("fpTerm %T", v))
}

// ---------------------------------------------------------------------------
// binop

func notV(v value) value {
	switch v := v.(type) {
	case bool:
		return !v
	case *sym:
		return &sym{smtNot(v.t), SBool}
	}
	panic("notV")
}

func (r *run) binop(fr *frame, op token.Token, t types.Type, x, y value, instr ssa.Instruction) value {
	switch op {
	case token.EQL:
		return r.eqnil(t, x, y)
	case token.NEQ:
		return notV(r.eqnil(t, x, y))
	}
	if isSym(x) || isSym(y) {
		return r.nameIfLarge(r.symBinop(fr, op, t, x, y, instr))
	}
	switch xv := x.(type) {
	case int64:
		ii, _ := intInfoOf(t)
		switch op {
		case token.SHL, token.SHR:
			var sh uint64
			switch yv := y.(type) {
			case int64:
				if yv < 0 {
					panic(targetPanic{msg: "negative shift amount", pos: fr.pos(instr)})
				}
				sh = uint64(yv)
			case uint64:
				sh = yv
			}
			if op == token.SHL {
				if sh >= 64 {
					return int64(0)
				}
				return ii.wrapS(xv << sh)
			}
			if sh >= 64 {
				if xv < 0 {
					return int64(-1)
				}
				return int64(0)
			}
			return xv >> sh
		}
		yv := y.(int64)
		switch op {
		case token.ADD:
			return ii.wrapS(xv + yv)
		case token.SUB:
			return ii.wrapS(xv - yv)
		case token.MUL:
			return ii.wrapS(xv * yv)
		case token.QUO:
			if yv == 0 {
				panic(targetPanic{msg: "integer divide by zero", pos: fr.pos(instr)})
			}
			return ii.wrapS(xv / yv)
		case token.REM:
			if yv == 0 {
				panic(targetPanic{msg: "integer divide by zero", pos: fr.pos(instr)})
			}
			if yv == -1 {
				return int64(0)
			}
			return xv % yv
		case token.AND:
			return xv & yv
		case token.OR:
			return xv | yv
		case token.XOR:
			return xv ^ yv
		case token.AND_NOT:
			return xv &^ yv
		case token.LSS:
			return xv < yv
		case token.LEQ:
			return xv <= yv
		case token.GTR:
			return xv > yv
		case token.GEQ:
			return xv >= yv
		}
	case uint64:
		ii, _ := intInfoOf(t)
		switch op {
		case token.SHL, token.SHR:
			var sh uint64
			switch yv := y.(type) {
			case int64:
				if yv < 0 {
					panic(targetPanic{msg: "negative shift amount", pos: fr.pos(instr)})
				}
				sh = uint64(yv)
			case uint64:
				sh = yv
			}
			if sh >= 64 {
				return uint64(0)
			}
			if op == token.SHL {
				return ii.wrapU(xv << sh)
			}
			return xv >> sh
		}
		yv := y.(uint64)
		switch op {
		case token.ADD:
			return ii.wrapU(xv + yv)
		case token.SUB:
			return ii.wrapU(xv - yv)
		case token.MUL:
			return ii.wrapU(xv * yv)
		case token.QUO:
			if yv == 0 {
				panic(targetPanic{msg: "integer divide by zero", pos: fr.pos(instr)})
			}
			return xv / yv
		case token.REM:
			if yv == 0 {
				panic(targetPanic{msg: "integer divide by zero", pos: fr.pos(instr)})
			}
			return xv % yv
		case token.AND:
			return xv & yv
		case token.OR:
			return xv | yv
		case token.XOR:
			return xv ^ yv
		case token.AND_NOT:
			return xv &^ yv
		case token.LSS:
			return xv < yv
		case token.LEQ:
			return xv <= yv
		case token.GTR:
			return xv > yv
		case token.GEQ:
			return xv >= yv
		}
	case float64:
		yv := y.(float64)
		f32 := false
		if b, ok := t.Underlying().(*types.Basic); ok && b.Kind() == types.Float32 {
			f32 = true
		}
		rnd := func(f float64) float64 {
			if f32 {
				return float64(float32(f))
			}
			return f
		}
		switch op {
		case token.ADD:
			return rnd(xv + yv)
		case token.SUB:
			return rnd(xv - yv)
		case token.MUL:
			return rnd(xv * yv)
		case token.QUO:
			return rnd(xv / yv)
		case token.LSS:
			return xv < yv
		case token.LEQ:
			return xv <= yv
		case token.GTR:
			return xv > yv
		case token.GEQ:
			return xv >= yv
		}
	case string:
		yv := y.(string)
		switch op {
		case token.ADD:
			return xv + yv
		case token.LSS:
			return xv < yv
		case token.LEQ:
			return xv <= yv
		case token.GTR:
			return xv > yv
		case token.GEQ:
			return xv >= yv
		}
	case bool:
		yv := y.(bool)
		switch op {
		case token.AND:
			return xv && yv
		case token.OR:
			return xv || yv
		}
	case complex128:
		yv := y.(complex128)
		switch op {
		case token.ADD:
			return xv + yv
		case token.SUB:
			return xv - yv
		case token.MUL:
			return xv * yv
		case token.QUO:
			return xv / yv
		}
	}
	panic(fmt.Sprintf("invalid binary op: %T %s %T", x, op, y))
}

func (r *run) symBinop(fr *frame, op token.Token, t types.Type, x, y value, instr ssa.Instruction) value {
	switch {
	case isStringType(t):
		a, b := strTerm(x), strTerm(y)
		switch op {
		case token.ADD:
			return &sym{sx("str.++", a, b), SStr}
		case token.LSS:
			return &sym{sx("str.<", a, b), SBool}
		case token.LEQ:
			return &sym{sx("str.<=", a, b), SBool}
		case token.GTR:
			return &sym{sx("str.<", b, a), SBool}
		case token.GEQ:
			return &sym{sx("str.<=", b, a), SBool}
		}
	case isBoolType(t):
		a, b := boolTerm(x), boolTerm(y)
		switch op {
		case token.AND:
			return &sym{sx("and", a, b), SBool}
		case token.OR:
			return &sym{sx("or", a, b), SBool}
		}
	case isFloatType(t):
		a, b := fpTerm(x), fpTerm(y)
		switch op {
		case token.ADD:
			return &sym{sx("fp.add RNE", a, b), SFP}
		case token.SUB:
			return &sym{sx("fp.sub RNE", a, b), SFP}
		case token.MUL:
			return &sym{sx("fp.mul RNE", a, b), SFP}
		case token.QUO:
			return &sym{sx("fp.div RNE", a, b), SFP}
		case token.LSS:
			return &sym{sx("fp.lt", a, b), SBool}
		case token.LEQ:
			return &sym{sx("fp.leq", a, b), SBool}
		case token.GTR:
			return &sym{sx("fp.gt", a, b), SBool}
		case token.GEQ:
			return &sym{sx("fp.geq", a, b), SBool}
		}
	default:
		ii, ok := intInfoOf(t)
		if !ok {
			break
		}
		a, b := intTerm(x), intTerm(y)
		w := ii.wrapFn()
		switch op {
		case token.ADD:
			if a == "0" {
				return y
			}
			if b == "0" {
				return x
			}
			return &sym{r.wrapIfNeeded(ii, sx("+", a, b)), SInt}
		case token.SUB:
			if b == "0" {
				return x
			}
			return &sym{r.wrapIfNeeded(ii, sx("-", a, b)), SInt}
		case token.MUL:
			if a == "1" {
				return y
			}
			if b == "1" {
				return x
			}
			if a == "0" || b == "0" {
				return zero(t)
			}
			return &sym{r.wrapIfNeeded(ii, sx("*", a, b)), SInt}
		case token.QUO, token.REM:
			if bc, ok := parseSmtInt(b); ok && bc != 0 {
				// concrete non-zero divisor
			} else if !r.branch(&sym{sx("not", sx("=", b, "0")), SBool}) {
				panic(targetPanic{msg: "integer divide by zero", pos: fr.pos(instr)})
			}
			if op == token.QUO {
				if ii.signed {
					// (MinInt / -1 wraps in Go; that single corner is not modelled)
					return &sym{sx("go_quo", a, b), SInt}
				}
				return &sym{sx("div", a, b), SInt}
			}
			if ii.signed {
				return &sym{sx("go_rem", a, b), SInt}
			}
			return &sym{sx("mod", a, b), SInt}
		case token.LSS:
			return &sym{sx("<", a, b), SBool}
		case token.LEQ:
			return &sym{sx("<=", a, b), SBool}
		case token.GTR:
			return &sym{sx(">", a, b), SBool}
		case token.GEQ:
			return &sym{sx(">=", a, b), SBool}
		case token.SHL:
			if c, ok := concreteShift(y); ok {
				if c >= 64 {
					return zero(t)
				}
				return &sym{sx(w, sx("*", a, smtUint(uint64(1)<<c))), SInt}
			}
		case token.SHR:
			if c, ok := concreteShift(y); ok {
				if c >= 63 {
					break
				}
				// floor division implements arithmetic shift for signed too
				return &sym{sx("div", a, smtUint(uint64(1)<<c)), SInt}
			}
		case token.AND:
			// x & (2^k - 1)
			// (SMT-LIB mod with a positive divisor is the non-negative remainder, which is
			// the low k bits of a two's complement value also for negative x)
			if c, ok := concreteMask(y); ok && (!ii.signed || c < 1<<62) {
				return &sym{sx("mod", a, smtUint(c+1)), SInt}
			}
			if c, ok := concreteMask(x); ok && (!ii.signed || c < 1<<62) {
				return &sym{sx("mod", b, smtUint(c+1)), SInt}
			}
			return r.bvBinop("bvand", ii, a, b)
		case token.OR:
			return r.bvBinop("bvor", ii, a, b)
		case token.XOR:
			return r.bvBinop("bvxor", ii, a, b)
		case token.AND_NOT:
			return r.bvBinop("bvand", ii, a, "(bv2int_"+fmt.Sprint(ii.bits)+" (bvnot ((_ int2bv "+fmt.Sprint(ii.bits)+") "+b+")))")
		}
	}
	panic(unsupported{fmt.Sprintf("symbolic binop %s on %s at %s", op, t, fr.pos(instr))})
}

func (r *run) bvBinop(op string, ii intInfo, a, b string) value {
	w := fmt.Sprint(ii.bits)
	res := "(bv2nat (" + op + " ((_ int2bv " + w + ") " + a + ") ((_ int2bv " + w + ") " + b + ")))"
	if ii.signed {
		res = sx(ii.wrapFn(), res)
	}
	return &sym{res, SInt}
}

func concreteShift(y value) (uint64, bool) {
	switch y := y.(type) {
	case uint64:
		return y, true
	case int64:
		if y >= 0 {
			return uint64(y), true
		}
	}
	return 0, false
}

func concreteMask(y value) (uint64, bool) {
	var c uint64
	switch y := y.(type) {
	case uint64:
		c = y
	case int64:
		if y < 0 {
			return 0, false
		}
		c = uint64(y)
	default:
		return 0, false
	}
	if c != 0 && c&(c+1) == 0 && c != math.MaxUint64 {
		return c, true
	}
	return 0, false
}

func (r *run) unop(fr *frame, instr *ssa.UnOp, x value) value {
	switch instr.Op {
	case token.ARROW:
		v, ok := r.chanRecv(fr, x.(*chanv))
		if !ok {
			v = zero(instr.X.Type().Underlying().(*types.Chan).Elem())
		}
		if instr.CommaOk {
			return tuple{v, ok}
		}
		return v
	case token.SUB:
		switch x := x.(type) {
		case int64:
			ii, _ := intInfoOf(instr.X.Type())
			return ii.wrapS(-x)
		case uint64:
			ii, _ := intInfoOf(instr.X.Type())
			return ii.wrapU(-x)
		case float64:
			return -x
		case complex128:
			return -x
		case *sym:
			if x.sort == SFP {
				return &sym{sx("fp.neg", x.t), SFP}
			}
			ii, _ := intInfoOf(instr.X.Type())
			return &sym{sx(ii.wrapFn(), sx("-", x.t)), SInt}
		}
	case token.MUL:
		p := x.(*value)
		if p == nil {
			panic(targetPanic{msg: "nil pointer dereference (load)", pos: fr.pos(instr)})
		}
		return load(deref(instr.X.Type()), p)
	case token.NOT:
		return notV(x)
	case token.XOR:
		switch x := x.(type) {
		case int64:
			return ^x
		case uint64:
			ii, _ := intInfoOf(instr.X.Type())
			return ii.wrapU(^x)
		}
	}
	panic(unsupported{fmt.Sprintf("unary op %s %T", instr.Op, x)})
}

func (r *run) typeAssert(fr *frame, instr *ssa.TypeAssert, itf iface) value {
	var v value
	err := ""
	if itf.t == nil {
		err = fmt.Sprintf("interface conversion: interface is nil, not %s", instr.AssertedType)
	} else if idst, ok := instr.AssertedType.Underlying().(*types.Interface); ok {
		v = itf
		if meth, _ := types.MissingMethod(itf.t, idst, true); meth != nil {
			err = fmt.Sprintf("interface conversion: %v is not %v: missing method %s", itf.t, idst, meth.Name())
		}
	} else if types.Identical(itf.t, instr.AssertedType) {
		v = itf.v
	} else {
		err = fmt.Sprintf("interface conversion: interface is %s, not %s", itf.t, instr.AssertedType)
	}
	if err != "" {
		if !instr.CommaOk {
			panic(targetPanic{msg: err, pos: fr.pos(instr)})
		}
		return tuple{zero(instr.AssertedType), false}
	}
	if instr.CommaOk {
		return tuple{v, true}
	}
	return v
}

func (r *run) callBuiltin(caller *frame, callpos token.Pos, fn *ssa.Builtin, args []value) value {
	switch fn.Name() {
	case "append":
		if len(args) == 1 {
			return args[0]
		}
		// symbolic byte sequences
		if a0, ok := args[0].(*sym); ok {
			if t1 := strTerm(args[1]); t1 == `""` {
				return a0
			}
			return &sym{sx("str.++", a0.t, strTerm(args[1])), SBytes}
		}
		if a1, ok := args[1].(*sym); ok {
			a0 := args[0].([]value)
			if len(a0) == 0 {
				return &sym{a1.t, SBytes}
			}
			return &sym{sx("str.++", strTerm(a0), a1.t), SBytes}
		}
		if s, ok := args[1].(string); ok {
			arg0 := args[0].([]value)
			for i := 0; i < len(s); i++ {
				arg0 = append(arg0, uint64(s[i]))
			}
			return arg0
		}
		a1 := args[1].([]value)
		cp := make([]value, len(a1))
		for i := range a1 {
			cp[i] = copyVal(a1[i])
		}
		return append(args[0].([]value), cp...)

	case "copy":
		src := args[1]
		if s, ok := src.(string); ok {
			src = bytesToValues(s)
		}
		if _, ok := src.(*sym); ok {
			panic(unsupported{"copy from symbolic sequence in " + caller.fn.String()})
		}
		if _, ok := args[0].(*sym); ok {
			panic(unsupported{"copy into symbolic sequence in " + caller.fn.String()})
		}
		dst := args[0].([]value)
		s := src.([]value)
		n := len(dst)
		if len(s) < n {
			n = len(s)
		}
		tmp := make([]value, n)
		for i := 0; i < n; i++ {
			tmp[i] = copyVal(s[i])
		}
		copy(dst, tmp)
		return int64(n)

	case "close":
		r.chanClose(caller, args[0].(*chanv))
		return nil

	case "delete":
		r.mapDelete(args[0].(*mapv), args[1])
		return nil

	case "print", "println":
		return nil

	case "len":
		switch x := args[0].(type) {
		case string:
			return int64(len(x))
		case array:
			return int64(len(x))
		case *value:
			return int64(len((*x).(array)))
		case []value:
			return int64(len(x))
		case *mapv:
			if x == nil {
				return int64(0)
			}
			return int64(len(x.entries))
		case *chanv:
			if x == nil {
				return int64(0)
			}
			return int64(len(x.buf))
		case *sym:
			return &sym{lenTerm(x.t), SInt}
		default:
			panic(fmt.Sprintf("len: illegal operand: %T", x))
		}

	case "cap":
		switch x := args[0].(type) {
		case array:
			return int64(cap(x))
		case *value:
			return int64(cap((*x).(array)))
		case []value:
			return int64(cap(x))
		case *chanv:
			if x == nil {
				return int64(0)
			}
			return int64(x.cap)
		case *sym:
			return &sym{"(str.len " + x.t + ")", SInt}
		default:
			panic(fmt.Sprintf("cap: illegal operand: %T", x))
		}

	case "min", "max":
		x := args[0]
		t := fn.Type().(*types.Signature).Params().At(0).Type()
		for _, a := range args[1:] {
			var lt value
			if fn.Name() == "min" {
				lt = r.binop(caller, token.LSS, t, a, x, nil)
			} else {
				lt = r.binop(caller, token.GTR, t, a, x, nil)
			}
			if r.truth(lt) {
				x = a
			}
		}
		return x

	case "panic":
		panic(targetPanic{v: args[0], msg: r.panicString(caller, args[0])})

	case "recover":
		return r.doRecover(caller)

	case "ssa:wrapnilchk":
		recv := args[0]
		if p, ok := recv.(*value); ok && p == nil {
			panic(targetPanic{msg: fmt.Sprintf("value method (%v).%v called using nil pointer", args[1], args[2])})
		}
		return recv

	case "ssa:deferstack":
		return &caller.defers
	}
	where := ""
	if caller != nil && caller.fn != nil {
		where = " (in " + caller.fn.String() + ")"
	}
	panic(unsupported{"unknown built-in: " + fn.Name() + where})
}

// ---------------------------------------------------------------------------
// conversions

func (r *run) conv(t_dst, t_src types.Type, x value) value {
	ut_src := t_src.Underlying()
	ut_dst := t_dst.Underlying()

	switch ut_src := ut_src.(type) {
	case *types.Pointer:
		if b, ok := ut_dst.(*types.Basic); ok && b.Kind() == types.UnsafePointer {
			return unsafePtr{x.(*value)}
		}
	case *types.Slice:
		// []byte or []rune -> string
		if s, ok := x.(*sym); ok {
			return &sym{s.t, SStr}
		}
		switch ut_src.Elem().Underlying().(*types.Basic).Kind() {
		case types.Byte:
			xs := x.([]value)
			if s, ok := goBytes(xs); ok {
				return s
			}
			return &sym{strTerm(xs), SStr}
		case types.Rune:
			xs := x.([]value)
			rs := make([]rune, 0, len(xs))
			for i := range xs {
				rs = append(rs, rune(xs[i].(int64)))
			}
			return string(rs)
		}
	case *types.Basic:
		if ut_src.Kind() == types.UnsafePointer {
			if _, ok := ut_dst.(*types.Pointer); ok {
				return x.(unsafePtr).p
			}
			if b, ok := ut_dst.(*types.Basic); ok && b.Kind() == types.UnsafePointer {
				return x
			}
			return zero(t_dst)
		}
		// string -> ...
		if ut_src.Info()&types.IsString != 0 {
			switch ut_dst := ut_dst.(type) {
			case *types.Slice:
				switch ut_dst.Elem().Underlying().(*types.Basic).Kind() {
				case types.Rune:
					s, ok := x.(string)
					if !ok {
						panic(unsupported{"[]rune(symbolic string)"})
					}
					var res []value
					for _, c := range s {
						res = append(res, int64(c))
					}
					return res
				case types.Byte:
					if s, ok := x.(*sym); ok {
						return &sym{s.t, SBytes}
					}
					return bytesToValues(x.(string))
				}
			case *types.Basic:
				if ut_dst.Info()&types.IsString != 0 {
					return x
				}
			}
			break
		}
		dstB, ok := ut_dst.(*types.Basic)
		if !ok {
			break
		}
		// integer -> string
		if ut_src.Info()&types.IsInteger != 0 && dstB.Info()&types.IsString != 0 {
			switch x := x.(type) {
			case int64:
				return string(rune(x))
			case uint64:
				return string(rune(x))
			case *sym:
				// only bytes < 0x80 are exact here; callers in scope use it for single bytes
				panic(unsupported{"string(symbolic integer)"})
			}
		}
		if dstB.Info()&types.IsComplex != 0 {
			return x
		}
		// numeric -> numeric
		if ut_src.Info()&types.IsNumeric != 0 && dstB.Info()&types.IsNumeric != 0 {
			return r.numConv(dstB, ut_src, x)
		}
	}
	panic(unsupported{fmt.Sprintf("conversion: %s -> %s, dynamic type %T", t_src, t_dst, x)})
}

func (r *run) numConv(dst, src *types.Basic, x value) value {
	dii, dstInt := intInfoOf(dst)
	sii, srcInt := intInfoOf(src)
	dstFloat := dst.Info()&types.IsFloat != 0
	if s, ok := x.(*sym); ok {
		switch {
		case srcInt && dstInt:
			// value-preserving if in range, else wrap
			if sii.signed == dii.signed && dii.bits >= sii.bits {
				return s
			}
			if !sii.signed && dii.signed && dii.bits > sii.bits {
				return s
			}
			return &sym{sx(dii.wrapFn(), s.t), SInt}
		case srcInt && dstFloat:
			bv := "((_ int2bv 64) " + s.t + ")"
			if sii.signed {
				return &sym{"((_ to_fp 11 53) RNE " + bv + ")", SFP}
			}
			return &sym{"((_ to_fp_unsigned 11 53) RNE " + bv + ")", SFP}
		case s.sort == SFP && dstInt:
			// Go truncates toward zero; out-of-range is implementation-defined (not modelled: assume in range)
			if dii.signed {
				bv := "((_ fp.to_sbv 64) RTZ " + s.t + ")"
				t := "(let ((b " + bv + ")) (ite (bvslt b #x0000000000000000) (- (bv2nat (bvneg b))) (bv2nat b)))"
				return &sym{sx(dii.wrapFn(), t), SInt}
			}
			return &sym{sx(dii.wrapFn(), "(bv2nat ((_ fp.to_ubv 64) RTZ "+s.t+"))"), SInt}
		case s.sort == SFP && dstFloat:
			return s
		}
		panic(unsupported{fmt.Sprintf("symbolic numeric conversion %s -> %s", src, dst)})
	}
	switch xv := x.(type) {
	case int64:
		switch {
		case dstInt && dii.signed:
			return dii.wrapS(xv)
		case dstInt:
			return dii.wrapU(uint64(xv))
		case dstFloat:
			if dst.Kind() == types.Float32 {
				return float64(float32(xv))
			}
			return float64(xv)
		}
	case uint64:
		switch {
		case dstInt && dii.signed:
			return dii.wrapS(int64(xv))
		case dstInt:
			return dii.wrapU(xv)
		case dstFloat:
			if dst.Kind() == types.Float32 {
				return float64(float32(xv))
			}
			return float64(xv)
		}
	case float64:
		switch {
		case dstInt && dii.signed:
			return dii.wrapS(int64(xv))
		case dstInt:
			return dii.wrapU(uint64(xv))
		case dstFloat:
			if dst.Kind() == types.Float32 {
				return float64(float32(xv))
			}
			return xv
		}
	}
	panic(unsupported{fmt.Sprintf("numeric conversion %s -> %s (%T)", src, dst, x)})
}

var _ = strings.Contains

// wrapIfNeeded asks the solver whether the exact result t can leave the range
// of the integer type under the current path condition; only then is the
// modular wrap-around term emitted (mod terms are expensive for the solver).
func (r *run) wrapIfNeeded(ii intInfo, t string) string {
	var lo, hi string
	if ii.signed {
		lo = smtInt(-1 << (ii.bits - 1))
		hi = smtInt(1<<(ii.bits-1) - 1)
		if ii.bits == 64 {
			lo, hi = "(- 9223372036854775808)", "9223372036854775807"
		}
	} else {
		lo = "0"
		hi = smtUint(^uint64(0) >> (64 - uint(ii.bits)))
	}
	if len(t) < 3000 {
		if e := parseSexp(t); e != nil {
			if r.intervalOf(e).within(typeRange(ii)) {
				return t
			}
		}
	}
	key := t + "@" + ii.wrapFn() + "@" + traceKey(r.trace)
	if v, ok := wrapCache.Load(key); ok {
		if v.(bool) {
			return sx(ii.wrapFn(), t)
		}
		return t
	}
	atomic.AddInt64(&gstats.wrapChecks, 1)
	r.solver.SetTimeout(1500)
	res := r.solver.CheckWith(sx("or", sx("<", t, lo), sx(">", t, hi)))
	r.solver.SetTimeout(r.solver.tmoMs)
	if r.solver.dead {
		r.inconclusive("solver timeout on overflow check")
		panic(pathEnd{"solver dead"})
	}
	need := res != Unsat
	wrapCache.Store(key, need)
	if need {
		return sx(ii.wrapFn(), t)
	}
	return t
}

var wrapCache sync.Map

func traceKey(tr []int) string {
	b := make([]byte, len(tr))
	for i, d := range tr {
		b[i] = byte('0' + d)
	}
	return string(b)
}

// nameIfLarge replaces a large term by a fresh variable constrained to equal it, so that
// terms re-used in later expressions (ite, str.++ ...) cannot grow exponentially.
func (r *run) nameIfLarge(v value) value {
	s, ok := v.(*sym)
	if !ok || len(s.t) < 1200 {
		return v
	}
	n := r.fresh("t", "named subterm", s.sort)
	if s.sort == SFP {
		r.solver.Assert("(= " + n.t + " " + s.t + ")")
	} else {
		r.solver.Assert("(= " + n.t + " " + s.t + ")")
	}
	return &sym{n.t, s.sort}
}


// lenTerm: the length of a string term; the length of a prefix (str.substr X 0 K) is given
// arithmetically as min(max(K,0), len X), which spares the string solver a substr reasoning step.
func lenTerm(t string) string {
	if strings.HasPrefix(t, "(str.substr ") {
		if e := parseSexp(t); e != nil && len(e.list) == 4 && e.list[2].String() == "0" {
			x, k := e.list[1].String(), e.list[3].String()
			lx := lenTerm(x)
			return "(ite (<= " + k + " 0) 0 (ite (<= " + k + " " + lx + ") " + k + " " + lx + "))"
		}
	}
	return "(str.len " + t + ")"
}
