package main

import (
	"fmt"
	"go/token"
	"go/types"
)

func (r *run) mutexOf(p *value) *mutexState {
	m := r.mutexes[p]
	if m == nil {
		m = &mutexState{}
		r.mutexes[p] = m
	}
	return m
}

func (r *run) lockMutex(p *value) {
	r.yield()
	m := r.mutexOf(p)
	if m.locked || m.readers > 0 {
		r.blockUntil("Mutex.Lock", func() bool { return !m.locked && m.readers == 0 })
	}
	m.locked = true
	m.owner = r.cur
}

func (r *run) unlockMutex(p *value) {
	m := r.mutexOf(p)
	if !m.locked {
		panic(targetPanic{msg: "sync: unlock of unlocked mutex"})
	}
	m.locked = false
	m.owner = nil
}

func (r *run) rlockMutex(p *value) {
	r.yield()
	m := r.mutexOf(p)
	if m.locked {
		r.blockUntil("RWMutex.RLock", func() bool { return !m.locked })
	}
	m.readers++
}

func (r *run) runlockMutex(p *value) {
	m := r.mutexOf(p)
	if m.readers <= 0 {
		panic(targetPanic{msg: "sync: RUnlock of unlocked RWMutex"})
	}
	m.readers--
}

// callMethod invokes a method by name on an interface value.
func (r *run) callMethod(fr *frame, it iface, name string, args ...value) value {
	if it.t == nil {
		panic(targetPanic{msg: "method " + name + " on nil interface"})
	}
	ms := r.e.prog.MethodSets.MethodSet(it.t)
	for i := 0; i < ms.Len(); i++ {
		sel := ms.At(i)
		if sel.Obj().Name() == name {
			f := r.e.prog.MethodValue(sel)
			if f == nil {
				break
			}
			return r.call(fr, token.NoPos, f, append([]value{it.v}, args...))
		}
	}
	panic(unsupported{fmt.Sprintf("method %s not found on %s", name, it.t)})
}

func addSyncIntrinsics(m map[string]intrinsicFn) {
	m["(*sync.Mutex).Lock"] = func(fr *frame, a []value) value { fr.r.lockMutex(a[0].(*value)); return nil }
	m["(*sync.Mutex).Unlock"] = func(fr *frame, a []value) value { fr.r.unlockMutex(a[0].(*value)); return nil }
	m["(*sync.Mutex).TryLock"] = func(fr *frame, a []value) value {
		r := fr.r
		r.yield()
		ms := r.mutexOf(a[0].(*value))
		if ms.locked {
			return false
		}
		ms.locked = true
		return true
	}
	m["(*sync.RWMutex).Lock"] = m["(*sync.Mutex).Lock"]
	m["(*sync.RWMutex).Unlock"] = m["(*sync.Mutex).Unlock"]
	m["(*sync.RWMutex).RLock"] = func(fr *frame, a []value) value { fr.r.rlockMutex(a[0].(*value)); return nil }
	m["(*sync.RWMutex).RUnlock"] = func(fr *frame, a []value) value { fr.r.runlockMutex(a[0].(*value)); return nil }

	// sync.Cond: struct{noCopy; L Locker; notify; checker}
	condL := func(fr *frame, p *value) iface {
		return (*p).(structure)[1].(iface)
	}
	m["(*sync.Cond).Wait"] = func(fr *frame, a []value) value {
		r := fr.r
		p := a[0].(*value)
		cs := r.conds[p]
		if cs == nil {
			cs = &condState{}
			r.conds[p] = cs
		}
		w := &condWaiter{th: r.cur}
		cs.waiters = append(cs.waiters, w)
		L := condL(fr, p)
		r.callMethod(fr, L, "Unlock")
		r.blockUntil("Cond.Wait", func() bool { return w.signaled })
		r.callMethod(fr, L, "Lock")
		return nil
	}
	m["(*sync.Cond).Signal"] = func(fr *frame, a []value) value {
		r := fr.r
		cs := r.conds[a[0].(*value)]
		if cs == nil {
			return nil
		}
		for len(cs.waiters) > 0 {
			w := cs.waiters[0]
			cs.waiters = cs.waiters[1:]
			if !w.signaled {
				w.signaled = true
				break
			}
		}
		return nil
	}
	m["(*sync.Cond).Broadcast"] = func(fr *frame, a []value) value {
		r := fr.r
		cs := r.conds[a[0].(*value)]
		if cs == nil {
			return nil
		}
		for _, w := range cs.waiters {
			w.signaled = true
		}
		cs.waiters = nil
		return nil
	}

	// sync.Once: the real body is executed from SSA (its state lives in the struct, so
	// `once = sync.Once{}` re-arms it as in Go); only a scheduling point is added in front.
	m["(*sync.Once).Do"] = func(fr *frame, a []value) value {
		r := fr.r
		r.yield()
		return r.callSSAx(fr.caller, fr.callpos, fr.fn, a, nil, true)
	}

	wg := func(r *run, p *value) *int64 {
		c := r.wgs[p]
		if c == nil {
			c = new(int64)
			r.wgs[p] = c
		}
		return c
	}
	m["(*sync.WaitGroup).Add"] = func(fr *frame, a []value) value {
		c := wg(fr.r, a[0].(*value))
		*c += asInt64(a[1])
		if *c < 0 {
			panic(targetPanic{msg: "sync: negative WaitGroup counter"})
		}
		return nil
	}
	m["(*sync.WaitGroup).Done"] = func(fr *frame, a []value) value {
		c := wg(fr.r, a[0].(*value))
		*c--
		if *c < 0 {
			panic(targetPanic{msg: "sync: negative WaitGroup counter"})
		}
		return nil
	}
	m["(*sync.WaitGroup).Wait"] = func(fr *frame, a []value) value {
		r := fr.r
		c := wg(r, a[0].(*value))
		r.yield()
		r.blockUntil("WaitGroup.Wait", func() bool { return *c == 0 })
		return nil
	}

	// sync/atomic on plain cells
	load := func(fr *frame, a []value) value {
		fr.r.yield()
		return *(a[0].(*value))
	}
	storeF := func(fr *frame, a []value) value {
		fr.r.yield()
		*(a[0].(*value)) = a[1]
		return nil
	}
	for _, n := range []string{"Int32", "Int64", "Uint32", "Uint64", "Uintptr", "Pointer"} {
		m["sync/atomic.Load"+n] = load
		m["sync/atomic.Store"+n] = storeF
		signed := n == "Int32" || n == "Int64"
		bits := 64
		if n == "Int32" || n == "Uint32" {
			bits = 32
		}
		ii := intInfo{bits, signed}
		m["sync/atomic.Add"+n] = func(fr *frame, a []value) value {
			fr.r.yield()
			p := a[0].(*value)
			switch x := (*p).(type) {
			case int64:
				*p = ii.wrapS(x + a[1].(int64))
			case uint64:
				*p = ii.wrapU(x + a[1].(uint64))
			default:
				panic(unsupported{"atomic.Add on symbolic"})
			}
			return *p
		}
		m["sync/atomic.CompareAndSwap"+n] = func(fr *frame, a []value) value {
			r := fr.r
			r.yield()
			p := a[0].(*value)
			var t types.Type = types.Typ[types.Int64]
			if !signed {
				t = types.Typ[types.Uint64]
			}
			if _, ok := (*p).(unsafePtr); ok {
				if (*p).(unsafePtr) == a[1].(unsafePtr) {
					*p = a[2]
					return true
				}
				return false
			}
			if r.truth(r.equalsV(t, *p, a[1])) {
				*p = a[2]
				return true
			}
			return false
		}
		m["sync/atomic.Swap"+n] = func(fr *frame, a []value) value {
			fr.r.yield()
			p := a[0].(*value)
			old := *p
			*p = a[1]
			return old
		}
	}

	// atomic.Value: side table keyed by address
	m["(*sync/atomic.Value).Load"] = func(fr *frame, a []value) value {
		r := fr.r
		r.yield()
		if c := r.avals[a[0].(*value)]; c != nil {
			return *c
		}
		return iface{}
	}
	m["(*sync/atomic.Value).Store"] = func(fr *frame, a []value) value {
		r := fr.r
		r.yield()
		v := a[1]
		if it, ok := v.(iface); ok && it.t == nil {
			panic(targetPanic{msg: "sync/atomic: store of nil value into Value"})
		}
		r.avals[a[0].(*value)] = &v
		return nil
	}
	m["(*sync/atomic.Value).Swap"] = func(fr *frame, a []value) value {
		r := fr.r
		r.yield()
		var old value = iface{}
		if c := r.avals[a[0].(*value)]; c != nil {
			old = *c
		}
		v := a[1]
		r.avals[a[0].(*value)] = &v
		return old
	}
	m["(*sync/atomic.Value).CompareAndSwap"] = func(fr *frame, a []value) value {
		r := fr.r
		r.yield()
		var old value = iface{}
		if c := r.avals[a[0].(*value)]; c != nil {
			old = *c
		}
		oi, ni := old.(iface), a[1].(iface)
		if !sameType(oi.t, ni.t) {
			return false
		}
		if oi.t != nil && !r.truth(r.equalsV(oi.t, oi.v, ni.v)) {
			return false
		}
		v := a[2]
		r.avals[a[0].(*value)] = &v
		return true
	}

	// sync.Pool: Get always misses (a pool may drop anything at any time), Put drops
	m["(*sync.Pool).Get"] = func(fr *frame, a []value) value {
		r := fr.r
		p := a[0].(*value)
		st := r.e.namedType("sync", "Pool").Underlying().(*types.Struct)
		for i := 0; i < st.NumFields(); i++ {
			if st.Field(i).Name() == "New" {
				f := (*p).(structure)[i]
				if c, ok := f.(*closure); ok && c != nil {
					return r.call(fr, token.NoPos, c, nil)
				}
				if f != nil {
					if _, isNilFn := f.(*closure); !isNilFn {
						return r.call(fr, token.NoPos, f, nil)
					}
				}
			}
		}
		return iface{}
	}
	m["(*sync.Pool).Put"] = func(fr *frame, a []value) value { return nil }
	m["runtime.Gosched"] = func(fr *frame, a []value) value { fr.r.yield(); return nil }
	m["runtime.GOMAXPROCS"] = func(fr *frame, a []value) value { return int64(8) }
	m["runtime.NumCPU"] = func(fr *frame, a []value) value { return int64(8) }
	m["runtime.KeepAlive"] = func(fr *frame, a []value) value { return nil }
	m["runtime.SetFinalizer"] = func(fr *frame, a []value) value { return nil }
}
