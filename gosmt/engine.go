package main

import (
	"fmt"
	"runtime/pprof"
	"strconv"
	"go/token"
	"os"
	"path/filepath"
	"sort"
	"strings"
	"sync"
	"time"

	"golang.org/x/tools/go/packages"
	"golang.org/x/tools/go/ssa"
	"golang.org/x/tools/go/ssa/ssautil"
)

const modulePath = "go.amzn.com"

type options struct {
	maxSteps      int
	maxDecisions  int
	maxThreads    int
	concretizeMax int
	permuteMaps   bool
	debug         bool
	solverBin     string
	solverTmoMs   int
	workers       int
	maxPaths      int
	jsonMaxElems  int
}

type intrinsicFn func(fr *frame, args []value) value

type engine struct {
	prog   *ssa.Program
	pkgs   []*packages.Package
	opts   options
	intr   map[string]intrinsicFn
	mu     sync.Mutex
	funcs  map[string]bool // functions encoded from SSA (module code)
	intrU  map[string]bool // intrinsics used
	loadS  float64
	tset   typeSet
	initOK map[string]bool
}

// harnessSpec describes one harness entry point and its bounds.
type harnessSpec struct {
	name            string // function name
	pkg             string // import path
	preemptionBound int
	maximalProgress bool
	frozenClock     bool
	concreteClock   bool // time is a concrete counter (schedules matter, durations do not)
	allowDeadlock   bool
	maxTicks        int
	maxPaths        int
	needReach       []string // labels that must be reached on some path (vacuity guard)
	desc            string
	noNative        bool // harness uses engine-only stubs: no native replay
	solver          string // primary solver binary for this harness (default: options)
	altSolver       bool // mirror the assertions into cvc5 and consult it when z3 answers unknown
}

type harnessResult struct {
	spec        *harnessSpec
	paths       int
	pathsEnded  map[string]int
	violations  []violation
	inconcl     []string
	reached     map[string]bool
	wall        float64
	maxDepth    int
	boundHit    bool
	assertsSeen int
}

// VERIF_BUDGET_S=<seconds>: per-harness wall-clock budget; exceeding it makes the harness inconclusive
var budgetS = func() int { n, _ := strconv.Atoi(os.Getenv("VERIF_BUDGET_S")); return n }()

// developer aid: VERIF_STOPON=<text> ends the exploration at the first violation containing text
var stopOn = os.Getenv("VERIF_STOPON")

func defaultOptions() options {
	return options{
		maxSteps:      3_000_000,
		maxDecisions:  600,
		maxThreads:    64,
		concretizeMax: 16,
		solverBin:     "z3-new",
		solverTmoMs:   10000,
		workers:       14,
		maxPaths:      200000,
		jsonMaxElems:  2,
	}
}

// stdlib packages whose init functions are executed (pure initialisers only).
var initAllowStd = map[string]bool{
	"errors": true, "io": true, "io/fs": true, "context": true, "strconv": true,
	"unicode/utf8": true, "bytes": true, "strings": true, "sort": true, "math": true,
	"syscall": false, "os": false, "time": false, "net/http": false,
	"encoding/base64": true, "encoding/json": false, "bufio": true,
	"github.com/google/uuid": false, "github.com/go-chi/chi": true,
}

func (e *engine) initAllowed(pkg *ssa.Package) bool {
	p := pkg.Pkg.Path()
	if strings.HasPrefix(p, modulePath+"/") {
		return true
	}
	return initAllowStd[p]
}

func (e *engine) noteFunc(fn *ssa.Function) {
	if fn.Pkg == nil || !strings.HasPrefix(fn.Pkg.Pkg.Path(), modulePath) {
		if fn.Pkg != nil {
			return
		}
	}
	name := fn.String()
	e.mu.Lock()
	e.funcs[name] = true
	e.mu.Unlock()
}

func (e *engine) noteIntrinsic(name string) {
	e.mu.Lock()
	e.intrU[name] = true
	e.mu.Unlock()
}

// loadEngine loads the given packages of /repo's working tree with the
// harness files of /verif/harness/<pkgdir>/ injected through an overlay.
func loadEngine(repo string, harnessRoot string, pkgPaths []string, opts options) (*engine, error) {
	t0 := time.Now()
	overlay := map[string][]byte{}
	shim, err := os.ReadFile(filepath.Join(harnessRoot, "shim.go.tmpl"))
	if err != nil {
		return nil, err
	}
	// every harness directory is overlaid (a harness may use the exported helpers of another package's harness)
	var hdirs []string
	filepath.Walk(harnessRoot, func(path string, info os.FileInfo, err error) error {
		if err == nil && info.IsDir() && path != harnessRoot {
			ents, _ := os.ReadDir(path)
			for _, ent := range ents {
				if strings.HasSuffix(ent.Name(), ".go") {
					hdirs = append(hdirs, path)
					break
				}
			}
		}
		return nil
	})
	for _, dir := range hdirs {
		rel, _ := filepath.Rel(harnessRoot, dir)
		ents, err := os.ReadDir(dir)
		if err != nil {
			return nil, err
		}
		pkgName := ""
		for _, ent := range ents {
			if !strings.HasSuffix(ent.Name(), ".go") || strings.HasSuffix(ent.Name(), "_test.go") {
				continue
			}
			b, err := os.ReadFile(filepath.Join(dir, ent.Name()))
			if err != nil {
				return nil, err
			}
			overlay[filepath.Join(repo, rel, ent.Name())] = b
			if pkgName == "" {
				pkgName = packageNameOf(b)
			}
		}
		if pkgName == "" {
			continue
		}
		overlay[filepath.Join(repo, rel, "zz_verif_shim.go")] = []byte(strings.ReplaceAll(string(shim), "PACKAGE", pkgName))
	}
	cfg := &packages.Config{
		Mode:       packages.LoadAllSyntax,
		Dir:        repo,
		BuildFlags: []string{"-tags=verif"},
		Overlay:    overlay,
		Env:        append(os.Environ(), "GOFLAGS=-mod=mod", "GOPROXY=off", "GOSUMDB=off", "GOTOOLCHAIN=local"),
	}
	pkgs, err := packages.Load(cfg, pkgPaths...)
	if err != nil {
		return nil, err
	}
	var errs []string
	packages.Visit(pkgs, nil, func(p *packages.Package) {
		for _, e := range p.Errors {
			errs = append(errs, e.Error())
		}
	})
	if len(errs) > 0 {
		return nil, fmt.Errorf("package load errors:\n%s", strings.Join(errs, "\n"))
	}
	prog, _ := ssautil.AllPackages(pkgs, ssa.InstantiateGenerics)
	prog.Build()
	e := &engine{prog: prog, pkgs: pkgs, opts: opts, funcs: map[string]bool{}, intrU: map[string]bool{}}
	e.intr = buildIntrinsics()
	e.loadS = time.Since(t0).Seconds()
	return e, nil
}

func packageNameOf(src []byte) string {
	for _, line := range strings.Split(string(src), "\n") {
		line = strings.TrimSpace(line)
		if strings.HasPrefix(line, "package ") {
			return strings.TrimSpace(strings.TrimPrefix(line, "package "))
		}
	}
	return ""
}

func (e *engine) findFunc(pkgPath, name string) *ssa.Function {
	for _, p := range e.prog.AllPackages() {
		if p.Pkg.Path() == pkgPath {
			return p.Func(name)
		}
	}
	return nil
}

// ---------------------------------------------------------------------------
// exploration

// newSolverFor: the primary solver, plus (for harnesses that reason about multi-megabyte
// lengths) a mirrored cvc5 consulted whenever the primary answers unknown.
func newSolverFor(e *engine, h *harnessSpec) *Solver {
	primary := e.opts.solverBin
	if h.solver != "" {
		primary = h.solver
	}
	if h.altSolver {
		other := "cvc5"
		if strings.Contains(primary, "cvc5") {
			other = "z3-new"
		}
		s := NewSolver(primary, 2500)
		s.alt = NewSolver(other, e.opts.solverTmoMs)
		return s
	}
	return NewSolver(primary, e.opts.solverTmoMs)
}

var traceNext bool
var pathLog = os.Getenv("VERIF_PATHLOG") != ""

type workQueue struct {
	mu      sync.Mutex
	cond    *sync.Cond
	items   [][]int
	active  int
	closed  bool
	started int
}

func newWorkQueue() *workQueue {
	q := &workQueue{}
	q.cond = sync.NewCond(&q.mu)
	return q
}

func (q *workQueue) push(items ...[]int) {
	q.mu.Lock()
	q.items = append(q.items, items...)
	q.mu.Unlock()
	q.cond.Broadcast()
}

// pop returns the next prefix (LIFO) or nil when exploration is complete.
func (q *workQueue) pop() ([]int, bool) {
	q.mu.Lock()
	defer q.mu.Unlock()
	for {
		if q.closed {
			return nil, false
		}
		if n := len(q.items); n > 0 {
			it := q.items[n-1]
			q.items = q.items[:n-1]
			q.active++
			q.started++
			return it, true
		}
		if q.active == 0 {
			q.closed = true
			q.cond.Broadcast()
			return nil, false
		}
		q.cond.Wait()
	}
}

func (q *workQueue) done() {
	q.mu.Lock()
	q.active--
	q.mu.Unlock()
	q.cond.Broadcast()
}

func (q *workQueue) close() {
	q.mu.Lock()
	q.closed = true
	q.mu.Unlock()
	q.cond.Broadcast()
}

func (e *engine) explore(h *harnessSpec) *harnessResult {
	t0 := time.Now()
	fn := e.findFunc(h.pkg, h.name)
	res := &harnessResult{spec: h, pathsEnded: map[string]int{}, reached: map[string]bool{}}
	if fn == nil {
		res.inconcl = append(res.inconcl, "harness function not found: "+h.pkg+"."+h.name)
		return res
	}
	maxPaths := h.maxPaths
	if maxPaths == 0 {
		maxPaths = e.opts.maxPaths
	}
	q := newWorkQueue()
	q.push([]int{})
	var mu sync.Mutex
	var wg sync.WaitGroup
	seenViol := map[string]int{}
	for w := 0; w < e.opts.workers; w++ {
		w := w
		wg.Add(1)
		go func() {
			defer wg.Done()
			solver := newSolverFor(e, h)
			defer func() { solver.Close() }()
			if w == 0 && smtLogPath != "" {
				if f, err := os.Create(smtLogPath); err == nil {
					solver.log = f
					defer f.Close()
				}
			}
			for {
				prefix, ok := q.pop()
				if !ok {
					return
				}
				if solver.dead && solver.alt == nil {
					solver.Close()
					solver = newSolverFor(e, h)
				}
				r := e.runPath(h, fn, prefix, solver)
				if pathLog {
					fmt.Fprintf(os.Stderr, "path prefix=%d trace=%d steps=%d threads=%d alts=%d sched=%d\n", len(prefix), len(r.trace), r.steps, len(r.threads), len(r.alts), len(r.schedLog))
				}
				mu.Lock()
				res.paths++
				if len(r.trace) > res.maxDepth {
					res.maxDepth = len(r.trace)
				}
				for _, v := range r.violations {
					key := v.Kind + "|" + v.Msg + "|" + v.Pos
					if seenViol[key] < 25 {
						seenViol[key]++
						res.violations = append(res.violations, v)
					}
				}
				for _, m := range r.inconcl {
					dup := false
					for _, x := range res.inconcl {
						if x == m {
							dup = true
						}
					}
					if !dup && len(res.inconcl) < 20 {
						res.inconcl = append(res.inconcl, m)
					}
				}
				for k := range r.reached {
					res.reached[k] = true
				}
				stop := false
				if res.paths >= maxPaths {
					res.boundHit = true
					stop = true
				}
				if len(res.violations) >= 60 {
					stop = true
				}
				if budgetS > 0 && time.Since(t0).Seconds() > float64(budgetS) {
					if !res.boundHit {
						res.inconcl = append(res.inconcl, fmt.Sprintf("wall-clock budget of %d s reached after %d paths: the decision tree was not exhausted", budgetS, res.paths))
					}
					res.boundHit = true
					stop = true
				}
				if stopOn != "" {
					for _, v := range r.violations {
						if strings.Contains(v.Msg, stopOn) {
							stop = true
						}
					}
				}
				mu.Unlock()
				if stop {
					q.done()
					q.close()
					return
				}
				if len(r.alts) > 0 {
					q.push(r.alts...)
				}
				q.done()
			}
		}()
	}
	stopProg := make(chan struct{})
	if os.Getenv("VERIF_PROGRESS") != "" {
		go func() {
			tk := time.NewTicker(10 * time.Second)
			defer tk.Stop()
			for {
				select {
				case <-stopProg:
					return
				case <-tk.C:
					mu.Lock()
					q.mu.Lock()
					fmt.Fprintf(os.Stderr, "progress %s: paths=%d queue=%d active=%d queries=%d solver=%.0fs wrapchecks=%d\n", h.name, res.paths, len(q.items), q.active, gstats.queries, float64(gstats.solverNs)/1e9, gstats.wrapChecks)
					q.mu.Unlock()
					mu.Unlock()
				}
			}
		}()
	}
	wg.Wait()
	close(stopProg)
	res.wall = time.Since(t0).Seconds()
	if res.boundHit {
		res.inconcl = append(res.inconcl, fmt.Sprintf("path bound %d reached before the decision tree was exhausted", maxPaths))
	}
	for _, l := range h.needReach {
		if !res.reached[l] {
			res.inconcl = append(res.inconcl, "vacuity: label "+l+" not reached on any feasible path")
		}
	}
	sort.Slice(res.violations, func(i, j int) bool { return res.violations[i].Msg < res.violations[j].Msg })
	return res
}

func (e *engine) runPath(h *harnessSpec, fn *ssa.Function, prefix []int, solver *Solver) *run {
	return e.runPathPinned(h, fn, prefix, solver, nil)
}

func (e *engine) runPathPinned(h *harnessSpec, fn *ssa.Function, prefix []int, solver *Solver, pin map[string]string) *run {
	r := &run{
		pin: pin, traceCalls: traceNext,
		e: e, h: h, solver: solver, prefix: prefix,
		globals:  map[*ssa.Global]*value{},
		initDone: map[*ssa.Package]bool{},
		mutexes:  map[*value]*mutexState{},
		conds:    map[*value]*condState{},
		onces:    map[*value]*onceState{},
		wgs:      map[*value]*int64{},
		avals:    map[*value]*value{},
		reached:  map[string]bool{},
		doneCh:   make(chan struct{}),
		stash:    map[string]value{},
		stubs:    map[string]value{},
		bounds:   map[string]interval{},
		known:    map[string]bool{},
		tokens:   map[string]bool{},
	}
	base := solver.depth
	solver.Push()
	main := r.newThread("main", false)
	r.cur = main
	go r.threadMain(main, func() {
		r.ensureInit(fn.Pkg)
		r.call(nil, token.NoPos, fn, nil)
	})
	main.wake <- struct{}{}
	select {
	case <-r.doneCh:
	case <-time.After(watchdogDur):
		last := r.schedLog
		if len(last) > 12 {
			last = last[len(last)-12:]
		}
		fmt.Fprintf(os.Stderr, "PATH WATCHDOG: %s prefix=%v steps=%d threads=%d timers=%d cur=%s last=%v\n", h.name, prefix, r.steps, len(r.threads), len(r.timers), r.cur.name, last)
		if f, err := os.Create("/verif/out/watchdog-stacks.txt"); err == nil {
			pprof.Lookup("goroutine").WriteTo(f, 2)
			f.Close()
		}
		r.inconclusive("path did not finish within 120s (engine watchdog)")
		r.finish()
	}
	solver.ResetTo(base)
	return r
}

var watchdogDur = func() time.Duration {
	if s := os.Getenv("VERIF_WATCHDOG_S"); s != "" {
		var n int
		fmt.Sscan(s, &n)
		if n > 0 {
			return time.Duration(n) * time.Second
		}
	}
	return 120 * time.Second
}()
