package main

// A light interval analysis over the Int terms the engine builds, used to
// decide without a solver call that an arithmetic result cannot leave the range
// of its Go type (so no modular wrap-around term has to be emitted). Bounds of
// variables come from the nondet declarations and from simple comparisons with
// literals in verifAssume conditions; both are also asserted to the solver, so
// the analysis never knows more than the path condition implies.

import (
	"math/big"
	"strings"
)

type sexp struct {
	atom string
	list []*sexp
}

func parseSexp(s string) *sexp {
	p := &sexpParser{s: s}
	return p.parse()
}

type sexpParser struct {
	s string
	i int
}

func (p *sexpParser) skip() {
	for p.i < len(p.s) && (p.s[p.i] == ' ' || p.s[p.i] == '\n' || p.s[p.i] == '\t') {
		p.i++
	}
}

func (p *sexpParser) parse() *sexp {
	p.skip()
	if p.i >= len(p.s) {
		return nil
	}
	if p.s[p.i] == '(' {
		p.i++
		n := &sexp{list: []*sexp{}}
		for {
			p.skip()
			if p.i >= len(p.s) {
				return n
			}
			if p.s[p.i] == ')' {
				p.i++
				return n
			}
			c := p.parse()
			if c == nil {
				return n
			}
			n.list = append(n.list, c)
		}
	}
	start := p.i
	if p.s[p.i] == '"' {
		p.i++
		for p.i < len(p.s) {
			if p.s[p.i] == '"' {
				if p.i+1 < len(p.s) && p.s[p.i+1] == '"' {
					p.i += 2
					continue
				}
				p.i++
				break
			}
			p.i++
		}
		return &sexp{atom: p.s[start:p.i]}
	}
	for p.i < len(p.s) && p.s[p.i] != ' ' && p.s[p.i] != ')' && p.s[p.i] != '(' && p.s[p.i] != '\n' {
		p.i++
	}
	return &sexp{atom: p.s[start:p.i]}
}

func (e *sexp) String() string {
	if e.list == nil {
		return e.atom
	}
	parts := make([]string, len(e.list))
	for i, c := range e.list {
		parts[i] = c.String()
	}
	return "(" + strings.Join(parts, " ") + ")"
}

type interval struct{ lo, hi *big.Int }

var (
	bigStrMax = big.NewInt(1 << 30)
	bigZero   = big.NewInt(0)
)

func typeRange(ii intInfo) interval {
	if ii.signed {
		lo := new(big.Int).Lsh(big.NewInt(-1), uint(ii.bits-1))
		hi := new(big.Int).Sub(new(big.Int).Lsh(big.NewInt(1), uint(ii.bits-1)), big.NewInt(1))
		return interval{lo, hi}
	}
	hi := new(big.Int).Sub(new(big.Int).Lsh(big.NewInt(1), uint(ii.bits)), big.NewInt(1))
	return interval{big.NewInt(0), hi}
}

func (iv interval) within(o interval) bool {
	return iv.lo != nil && iv.hi != nil && iv.lo.Cmp(o.lo) >= 0 && iv.hi.Cmp(o.hi) <= 0
}

func wrapRange(name string) (interval, bool) {
	switch name {
	case "wrap_s64":
		return typeRange(intInfo{64, true}), true
	case "wrap_s32":
		return typeRange(intInfo{32, true}), true
	case "wrap_s16":
		return typeRange(intInfo{16, true}), true
	case "wrap_s8":
		return typeRange(intInfo{8, true}), true
	case "wrap_u64":
		return typeRange(intInfo{64, false}), true
	case "wrap_u32":
		return typeRange(intInfo{32, false}), true
	case "wrap_u16":
		return typeRange(intInfo{16, false}), true
	case "wrap_u8":
		return typeRange(intInfo{8, false}), true
	}
	return interval{}, false
}

func litInt(e *sexp) (*big.Int, bool) {
	if e.list == nil {
		if v, ok := new(big.Int).SetString(e.atom, 10); ok {
			return v, true
		}
		return nil, false
	}
	if len(e.list) == 2 && e.list[0].atom == "-" {
		if v, ok := litInt(e.list[1]); ok {
			return new(big.Int).Neg(v), true
		}
	}
	return nil, false
}

// intervalOf computes a conservative interval of an Int term (nil bounds = unknown).
func (r *run) intervalOf(e *sexp) interval {
	if v, ok := litInt(e); ok {
		return interval{v, v}
	}
	if e.list == nil {
		if iv, ok := r.bounds[e.atom]; ok {
			return iv
		}
		return interval{}
	}
	if len(e.list) == 0 {
		return interval{}
	}
	key := ""
	op := e.list[0].atom
	if op == "str.len" {
		key = e.String()
		if iv, ok := r.bounds[key]; ok {
			return iv
		}
		return interval{bigZero, bigStrMax}
	}
	args := e.list[1:]
	switch op {
	case "+":
		lo, hi := big.NewInt(0), big.NewInt(0)
		for _, a := range args {
			iv := r.intervalOf(a)
			if iv.lo == nil || iv.hi == nil {
				return interval{}
			}
			lo = new(big.Int).Add(lo, iv.lo)
			hi = new(big.Int).Add(hi, iv.hi)
		}
		return interval{lo, hi}
	case "-":
		if len(args) == 1 {
			iv := r.intervalOf(args[0])
			if iv.lo == nil || iv.hi == nil {
				return interval{}
			}
			return interval{new(big.Int).Neg(iv.hi), new(big.Int).Neg(iv.lo)}
		}
		if len(args) == 2 {
			a, b := r.intervalOf(args[0]), r.intervalOf(args[1])
			if a.lo == nil || a.hi == nil || b.lo == nil || b.hi == nil {
				return interval{}
			}
			return interval{new(big.Int).Sub(a.lo, b.hi), new(big.Int).Sub(a.hi, b.lo)}
		}
	case "*":
		if len(args) == 2 {
			a, b := r.intervalOf(args[0]), r.intervalOf(args[1])
			if a.lo == nil || a.hi == nil || b.lo == nil || b.hi == nil {
				return interval{}
			}
			cands := []*big.Int{
				new(big.Int).Mul(a.lo, b.lo), new(big.Int).Mul(a.lo, b.hi),
				new(big.Int).Mul(a.hi, b.lo), new(big.Int).Mul(a.hi, b.hi),
			}
			lo, hi := cands[0], cands[0]
			for _, c := range cands[1:] {
				if c.Cmp(lo) < 0 {
					lo = c
				}
				if c.Cmp(hi) > 0 {
					hi = c
				}
			}
			return interval{lo, hi}
		}
	case "ite":
		if len(args) == 3 {
			a, b := r.intervalOf(args[1]), r.intervalOf(args[2])
			if a.lo == nil || a.hi == nil || b.lo == nil || b.hi == nil {
				return interval{}
			}
			lo, hi := a.lo, a.hi
			if b.lo.Cmp(lo) < 0 {
				lo = b.lo
			}
			if b.hi.Cmp(hi) > 0 {
				hi = b.hi
			}
			return interval{lo, hi}
		}
	case "go_quo", "div":
		if len(args) == 2 {
			a := r.intervalOf(args[0])
			if d, ok := litInt(args[1]); ok && d.Sign() > 0 && a.lo != nil && a.hi != nil {
				// |x/d| <= |x|
				lo, hi := a.lo, a.hi
				if lo.Sign() > 0 {
					lo = bigZero
				}
				if hi.Sign() < 0 {
					hi = bigZero
				}
				return interval{lo, hi}
			}
		}
	case "mod":
		if len(args) == 2 {
			if d, ok := litInt(args[1]); ok && d.Sign() > 0 {
				return interval{bigZero, new(big.Int).Sub(d, big.NewInt(1))}
			}
		}
	case "str.to_code":
		return interval{big.NewInt(-1), big.NewInt(255)}
	case "str.indexof":
		return interval{big.NewInt(-1), bigStrMax}
	}
	if wr, ok := wrapRange(op); ok && len(args) == 1 {
		inner := r.intervalOf(args[0])
		if inner.within(wr) {
			return inner
		}
		return wr
	}
	return interval{}
}

// learnBounds records simple variable/literal comparisons of an assumed condition.
func (r *run) learnBounds(cond string) {
	e := parseSexp(cond)
	if e == nil {
		return
	}
	r.learnFrom(e)
}

func (r *run) learnFrom(e *sexp) {
	if e.list == nil || len(e.list) == 0 {
		return
	}
	op := e.list[0].atom
	if op == "and" {
		for _, c := range e.list[1:] {
			r.learnFrom(c)
		}
		return
	}
	if op == "not" && len(e.list) == 2 {
		in := e.list[1]
		if in.list != nil && len(in.list) == 3 {
			flip := map[string]string{"<": ">=", "<=": ">", ">": "<=", ">=": "<"}
			if f, ok := flip[in.list[0].atom]; ok {
				r.learnFrom(&sexp{list: []*sexp{{atom: f}, in.list[1], in.list[2]}})
			}
		}
		return
	}
	if len(e.list) != 3 {
		return
	}
	a, b := e.list[1], e.list[2]
	one := big.NewInt(1)
	setHi := func(k string, v *big.Int) {
		iv := r.boundOf(k)
		if iv.hi == nil || v.Cmp(iv.hi) < 0 {
			iv.hi = v
		}
		r.bounds[k] = iv
	}
	setLo := func(k string, v *big.Int) {
		iv := r.boundOf(k)
		if iv.lo == nil || v.Cmp(iv.lo) > 0 {
			iv.lo = v
		}
		r.bounds[k] = iv
	}
	isVar := func(x *sexp) (string, bool) {
		if x.list == nil {
			if _, ok := litInt(x); ok {
				return "", false
			}
			return x.atom, true
		}
		if len(x.list) == 2 && x.list[0].atom == "str.len" {
			return x.String(), true
		}
		return "", false
	}
	if k, ok := isVar(a); ok {
		if v, ok := litInt(b); ok {
			switch op {
			case "<=":
				setHi(k, v)
			case "<":
				setHi(k, new(big.Int).Sub(v, one))
			case ">=":
				setLo(k, v)
			case ">":
				setLo(k, new(big.Int).Add(v, one))
			case "=":
				setLo(k, v)
				setHi(k, v)
			}
			return
		}
	}
	if k, ok := isVar(b); ok {
		if v, ok := litInt(a); ok {
			switch op {
			case "<=":
				setLo(k, v)
			case "<":
				setLo(k, new(big.Int).Add(v, one))
			case ">=":
				setHi(k, v)
			case ">":
				setHi(k, new(big.Int).Sub(v, one))
			case "=":
				setLo(k, v)
				setHi(k, v)
			}
		}
	}
}

func (r *run) boundOf(k string) interval {
	if iv, ok := r.bounds[k]; ok {
		return iv
	}
	if strings.HasPrefix(k, "(str.len") {
		return interval{bigZero, bigStrMax}
	}
	return interval{}
}
