package main

// encoding/json as a type-directed contract over interpreter values.
// Concrete data is encoded/decoded exactly (delegating string escaping to the
// real encoder); symbolic strings are encoded through the uninterpreted
// function json_esc, symbolic documents are decoded into fresh symbolic
// fields (or an error), see DESIGN.md section 2.3.

import (
	"bytes"
	"encoding/base64"
	"encoding/json"
	"fmt"
	"go/token"
	"go/types"
	"reflect"
	"sort"
	"strconv"
	"strings"
	"time"
)

func jsonQuote(s string) string {
	b, _ := json.Marshal(s)
	return string(b)
}

func jsonQuoteNoHTML(s string) string {
	var buf bytes.Buffer
	enc := json.NewEncoder(&buf)
	enc.SetEscapeHTML(false)
	enc.Encode(s)
	return strings.TrimSuffix(buf.String(), "\n")
}

type jsonField struct {
	name      string
	index     int
	omitEmpty bool
	asString  bool
	typ       types.Type
	embedded  bool
}

func jsonFields(st *types.Struct) []jsonField {
	var fs []jsonField
	for i := 0; i < st.NumFields(); i++ {
		f := st.Field(i)
		tag := reflect.StructTag(st.Tag(i)).Get("json")
		if tag == "-" {
			continue
		}
		name, opts, _ := strings.Cut(tag, ",")
		if f.Embedded() && name == "" {
			t := f.Type()
			if p, ok := t.Underlying().(*types.Pointer); ok {
				t = p.Elem()
			}
			if _, ok := t.Underlying().(*types.Struct); ok {
				fs = append(fs, jsonField{index: i, typ: f.Type(), embedded: true})
				continue
			}
		}
		if !f.Exported() {
			continue
		}
		if name == "" {
			name = f.Name()
		}
		fs = append(fs, jsonField{name: name, index: i, typ: f.Type(),
			omitEmpty: strings.Contains(","+opts+",", ",omitempty,"),
			asString:  strings.Contains(","+opts+",", ",string,")})
	}
	return fs
}

type jsonEnc struct {
	r      *run
	fr     *frame
	html   bool
	parts  []value
	failed iface
}

func (e *jsonEnc) lit(s string) { e.parts = append(e.parts, s) }

func (e *jsonEnc) isEmpty(t types.Type, v value) value {
	switch ut := t.Underlying().(type) {
	case *types.Basic:
		switch {
		case ut.Info()&types.IsString != 0:
			if s, ok := v.(string); ok {
				return s == ""
			}
			return boolSym("(= (str.len " + v.(*sym).t + ") 0)")
		case ut.Info()&types.IsBoolean != 0:
			return notV(v)
		case ut.Info()&types.IsNumeric != 0:
			return e.r.equalsV(t, v, zero(t))
		}
	case *types.Slice:
		switch s := v.(type) {
		case []value:
			return len(s) == 0
		case *sym:
			return boolSym("(= (str.len " + s.t + ") 0)")
		}
	case *types.Map:
		mv, _ := v.(*mapv)
		return mv == nil || len(mv.entries) == 0
	case *types.Pointer:
		p, _ := v.(*value)
		return p == nil
	case *types.Interface:
		return v.(iface).t == nil
	case *types.Array:
		return len(v.(array)) == 0
	}
	return false
}

func (e *jsonEnc) str(v value) {
	switch s := v.(type) {
	case string:
		if e.html {
			e.lit(jsonQuote(s))
		} else {
			e.lit(jsonQuoteNoHTML(s))
		}
	case *sym:
		if ps := flattenConcat(s.t); e.hasRepeat(ps) {
			// literals and repeat-strings are escaped exactly, other parts by contract
			e.parts = append(e.parts, `"`)
			for _, p := range ps {
				if len(p) >= 2 && p[0] == '"' {
					q := jsonQuote(parseSmtStr(p))
					if !e.html {
						q = jsonQuoteNoHTML(parseSmtStr(p))
					}
					e.parts = append(e.parts, q[1:len(q)-1])
				} else if rec, ok := e.r.repeats[p]; ok {
					q := jsonQuote(rec.lit)
					if !e.html {
						q = jsonQuoteNoHTML(rec.lit)
					}
					e.parts = append(e.parts, e.r.newRepeat(q[1:len(q)-1], rec.n, "escaped repeat"))
				} else {
					e.parts = append(e.parts, e.escTerm(p))
				}
			}
			e.parts = append(e.parts, `"`)
			return
		}
		if parts, ok := structuredString(s.t); ok {
			// a concatenation of literals and formatted integers: escape the literals exactly
			e.parts = append(e.parts, `"`)
			for _, p := range parts {
				if p.lit {
					q := jsonQuote(p.s)
					if !e.html {
						q = jsonQuoteNoHTML(p.s)
					}
					e.parts = append(e.parts, q[1:len(q)-1])
				} else {
					e.parts = append(e.parts, strSym(p.s))
				}
			}
			e.parts = append(e.parts, `"`)
			return
		}
		e.parts = append(e.parts, `"`, e.escTerm(s.t), `"`)
	}
}

// escTerm: the uninterpreted escaping of a string term with its length contract
func (e *jsonEnc) escTerm(t string) value {
	fn := "json_esc"
	if !e.html {
		e.r.declareOnce("json_esc_nohtml", "(declare-fun json_esc_nohtml (String) String)")
		fn = "json_esc_nohtml"
	}
	esc := "(" + fn + " " + t + ")"
	// length contract of encoding/json's string escaping
	key := "jsonlen:" + esc
	if _, ok := e.r.stash[key]; !ok {
		e.r.stash[key] = true
		e.r.assertPC("(>= (str.len " + esc + ") (str.len " + t + "))")
		e.r.assertPC("(<= (str.len " + esc + ") (* 6 (str.len " + t + ")))")
	}
	return strSym(esc)
}

func (e *jsonEnc) hasRepeat(parts []string) bool {
	for _, p := range parts {
		if _, ok := e.r.repeats[p]; ok {
			return true
		}
	}
	return false
}

// flattenConcat returns the top-level operands of (str.++ ...) (recursively), or the term itself.
func flattenConcat(t string) []string {
	if !strings.HasPrefix(t, "(str.++ ") {
		return []string{t}
	}
	e := parseSexp(t)
	if e == nil || e.list == nil {
		return []string{t}
	}
	var out []string
	var walk func(x *sexp)
	walk = func(x *sexp) {
		if x.list != nil && len(x.list) > 0 && x.list[0].atom == "str.++" {
			for _, c := range x.list[1:] {
				walk(c)
			}
			return
		}
		out = append(out, x.String())
	}
	walk(e)
	return out
}

func (e *jsonEnc) enc(t types.Type, v value) {
	r := e.r
	if t.String() == "time.Time" {
		// time.Time is modelled as {0, ns since epoch, nil}; RFC 3339 like encoding/json
		if st, ok := v.(structure); ok {
			if ns, ok := st[1].(int64); ok {
				if ns == 0 {
					e.lit(`"0001-01-01T00:00:00Z"`)
				} else {
					e.lit(`"` + time.Unix(0, ns).UTC().Format(time.RFC3339Nano) + `"`)
				}
				return
			}
		}
		e.lit(`"<time>"`)
		return
	}
	// Marshaler / TextMarshaler (value or pointer receiver on addressable — value receiver only here)
	if _, isIface := t.Underlying().(*types.Interface); !isIface {
		if f := r.findMethod(t, "MarshalJSON"); f != nil {
			if p, ok := v.(*value); ok && p == nil {
				e.lit("null")
				return
			}
			res := r.call(e.fr, token.NoPos, f, []value{v}).(tuple)
			if err := res[1].(iface); err.t != nil {
				e.failed = err
				return
			}
			switch b := res[0].(type) {
			case []value:
				if s, ok := goBytes(b); ok {
					e.lit(s)
				} else {
					e.parts = append(e.parts, strSym(strTerm(b)))
				}
			case *sym:
				e.parts = append(e.parts, strSym(b.t))
			}
			return
		}
		if f := r.findMethod(t, "MarshalText"); f != nil {
			res := r.call(e.fr, token.NoPos, f, []value{v}).(tuple)
			if err := res[1].(iface); err.t != nil {
				e.failed = err
				return
			}
			switch b := res[0].(type) {
			case []value:
				if s, ok := goBytes(b); ok {
					e.str(s)
				} else {
					e.str(strSym(strTerm(b)))
				}
			case *sym:
				e.str(strSym(b.t))
			}
			return
		}
	}
	if t.String() == "time.Time" {
		e.lit(`"<time>"`)
		return
	}
	switch ut := t.Underlying().(type) {
	case *types.Basic:
		switch {
		case ut.Info()&types.IsString != 0:
			e.str(v)
		case ut.Info()&types.IsBoolean != 0:
			switch b := v.(type) {
			case bool:
				e.lit(strconv.FormatBool(b))
			case *sym:
				e.parts = append(e.parts, strSym("(ite "+b.t+" \"true\" \"false\")"))
			}
		case ut.Info()&types.IsInteger != 0:
			e.parts = append(e.parts, r.fmtInt(v, ut.Info()&types.IsUnsigned == 0))
		case ut.Info()&types.IsFloat != 0:
			if f, ok := v.(float64); ok {
				b, _ := json.Marshal(f)
				e.lit(string(b))
			} else {
				e.lit("0.0")
			}
		default:
			e.lit("null")
		}
	case *types.Struct:
		s := v.(structure)
		e.lit("{")
		first := true
		e.structFields(ut, s, &first)
		e.lit("}")
	case *types.Pointer:
		p, _ := v.(*value)
		if p == nil {
			e.lit("null")
			return
		}
		e.enc(ut.Elem(), *p)
	case *types.Interface:
		it := v.(iface)
		if it.t == nil {
			e.lit("null")
			return
		}
		e.enc(it.t, it.v)
	case *types.Slice:
		if isByteSlice(t) && t.String() != "encoding/json.RawMessage" {
			switch b := v.(type) {
			case []value:
				if b == nil {
					e.lit("null")
					return
				}
				if s, ok := goBytes(b); ok {
					e.lit(`"` + base64.StdEncoding.EncodeToString([]byte(s)) + `"`)
					return
				}
			}
			r.declareOnce("b64_enc", "(declare-fun b64_enc (String) String)")
			e.parts = append(e.parts, `"`, strSym("(b64_enc "+strTerm(v)+")"), `"`)
			return
		}
		if t.String() == "encoding/json.RawMessage" {
			switch b := v.(type) {
			case []value:
				if b == nil {
					e.lit("null")
					return
				}
				if s, ok := goBytes(b); ok {
					e.lit(s)
					return
				}
				e.parts = append(e.parts, strSym(strTerm(b)))
			case *sym:
				e.parts = append(e.parts, strSym(b.t))
			}
			return
		}
		xs, _ := v.([]value)
		if xs == nil {
			e.lit("null")
			return
		}
		e.lit("[")
		for i, x := range xs {
			if i > 0 {
				e.lit(",")
			}
			e.enc(ut.Elem(), x)
		}
		e.lit("]")
	case *types.Array:
		xs := v.(array)
		e.lit("[")
		for i, x := range xs {
			if i > 0 {
				e.lit(",")
			}
			e.enc(ut.Elem(), x)
		}
		e.lit("]")
	case *types.Map:
		mv, _ := v.(*mapv)
		if mv == nil {
			e.lit("null")
			return
		}
		type kv struct {
			k string
			v value
		}
		var kvs []kv
		for _, ent := range mv.entries {
			ks, ok := ent.key.(string)
			if !ok {
				panic(unsupported{"json.Marshal of map with symbolic/non-string key"})
			}
			kvs = append(kvs, kv{ks, ent.val})
		}
		sort.Slice(kvs, func(i, j int) bool { return kvs[i].k < kvs[j].k })
		e.lit("{")
		for i, p := range kvs {
			if i > 0 {
				e.lit(",")
			}
			e.str(p.k)
			e.lit(":")
			e.enc(ut.Elem(), p.v)
		}
		e.lit("}")
	default:
		panic(unsupported{"json.Marshal of " + t.String()})
	}
}

func (e *jsonEnc) structFields(st *types.Struct, s structure, first *bool) {
	for _, f := range jsonFields(st) {
		fv := s[f.index]
		if f.embedded {
			t := f.typ
			if p, ok := t.Underlying().(*types.Pointer); ok {
				pv, _ := fv.(*value)
				if pv == nil {
					continue
				}
				fv = *pv
				t = p.Elem()
			}
			e.structFields(t.Underlying().(*types.Struct), fv.(structure), first)
			continue
		}
		if f.omitEmpty {
			if e.r.truth(e.isEmpty(f.typ, fv)) {
				continue
			}
		}
		if !*first {
			e.lit(",")
		}
		*first = false
		e.lit(jsonQuote(f.name) + ":")
		if f.asString {
			e.lit(`"`)
			e.enc(f.typ, fv)
			e.lit(`"`)
		} else {
			e.enc(f.typ, fv)
		}
	}
}

// jsonMarshal returns the document as a string-sorted value and an error iface.
func (r *run) jsonMarshal(fr *frame, v value, html bool) (value, iface) {
	it, _ := v.(iface)
	e := &jsonEnc{r: r, fr: fr, html: html}
	if it.t == nil {
		return "null", iface{}
	}
	e.enc(it.t, it.v)
	if e.failed.t != nil {
		return "", e.failed
	}
	return catStr(e.parts), iface{}
}

// ---------------------------------------------------------------------------
// decoding

func (r *run) jsonAssign(fr *frame, t types.Type, dst *value, j interface{}) error {
	if f := r.findMethod(types.NewPointer(t), "UnmarshalJSON"); f != nil {
		if _, isP := t.Underlying().(*types.Pointer); !isP {
			raw, _ := json.Marshal(j)
			res := r.call(fr, token.NoPos, f, []value{dst, bytesToValues(string(raw))})
			if err, ok := res.(iface); ok && err.t != nil {
				return fmt.Errorf("UnmarshalJSON: %s", r.errorString(fr, err))
			}
			return nil
		}
	}
	if j == nil {
		switch t.Underlying().(type) {
		case *types.Pointer, *types.Slice, *types.Map, *types.Interface:
			*dst = zero(t)
		}
		return nil
	}
	switch ut := t.Underlying().(type) {
	case *types.Basic:
		switch {
		case ut.Info()&types.IsString != 0:
			if ss, ok := j.(jsonSymStr); ok {
				*dst = catStr(ss.parts)
				return nil
			}
			s, ok := j.(string)
			if !ok {
				return fmt.Errorf("json: cannot unmarshal %T into Go value of type %s", j, t)
			}
			*dst = s
		case ut.Info()&types.IsBoolean != 0:
			b, ok := j.(bool)
			if !ok {
				return fmt.Errorf("json: cannot unmarshal %T into Go value of type %s", j, t)
			}
			*dst = b
		case ut.Info()&types.IsInteger != 0:
			n, ok := j.(json.Number)
			if !ok {
				return fmt.Errorf("json: cannot unmarshal %T into Go value of type %s", j, t)
			}
			ii, _ := intInfoOf(t)
			if ii.signed {
				x, err := strconv.ParseInt(string(n), 10, ii.bits)
				if err != nil {
					return fmt.Errorf("json: cannot unmarshal number %s into Go value of type %s", n, t)
				}
				*dst = x
			} else {
				x, err := strconv.ParseUint(string(n), 10, ii.bits)
				if err != nil {
					return fmt.Errorf("json: cannot unmarshal number %s into Go value of type %s", n, t)
				}
				*dst = x
			}
		case ut.Info()&types.IsFloat != 0:
			n, ok := j.(json.Number)
			if !ok {
				return fmt.Errorf("json: cannot unmarshal %T into Go value of type %s", j, t)
			}
			f, err := n.Float64()
			if err != nil {
				return err
			}
			*dst = f
		}
	case *types.Struct:
		obj, ok := j.(map[string]interface{})
		if !ok {
			return fmt.Errorf("json: cannot unmarshal %T into Go value of type %s", j, t)
		}
		s := (*dst).(structure)
		return r.jsonAssignStruct(fr, ut, s, obj)
	case *types.Pointer:
		p, _ := (*dst).(*value)
		if p == nil {
			nv := zero(ut.Elem())
			p = &nv
			*dst = p
		}
		return r.jsonAssign(fr, ut.Elem(), p, j)
	case *types.Slice:
		if isByteSlice(t) {
			if t.String() == "encoding/json.RawMessage" {
				raw, _ := json.Marshal(j)
				*dst = bytesToValues(string(raw))
				return nil
			}
			s, ok := j.(string)
			if !ok {
				return fmt.Errorf("json: cannot unmarshal %T into []byte", j)
			}
			b, err := base64.StdEncoding.DecodeString(s)
			if err != nil {
				return err
			}
			*dst = bytesToValues(string(b))
			return nil
		}
		arr, ok := j.([]interface{})
		if !ok {
			return fmt.Errorf("json: cannot unmarshal %T into Go value of type %s", j, t)
		}
		out := make([]value, len(arr))
		for i, x := range arr {
			out[i] = zero(ut.Elem())
			if err := r.jsonAssign(fr, ut.Elem(), &out[i], x); err != nil {
				return err
			}
		}
		*dst = out
	case *types.Map:
		obj, ok := j.(map[string]interface{})
		if !ok {
			return fmt.Errorf("json: cannot unmarshal %T into Go value of type %s", j, t)
		}
		mv, _ := (*dst).(*mapv)
		if mv == nil {
			mv = &mapv{keyType: ut.Key()}
			*dst = mv
		}
		keys := make([]string, 0, len(obj))
		for k := range obj {
			keys = append(keys, k)
		}
		sort.Strings(keys)
		for _, k := range keys {
			ev := zero(ut.Elem())
			if err := r.jsonAssign(fr, ut.Elem(), &ev, obj[k]); err != nil {
				return err
			}
			r.mapUpdate(mv, k, ev)
		}
	case *types.Interface:
		*dst = r.jsonGeneric(j)
	default:
		return fmt.Errorf("json: unsupported target type %s", t)
	}
	return nil
}

func (r *run) jsonAssignStruct(fr *frame, st *types.Struct, s structure, obj map[string]interface{}) error {
	for _, f := range jsonFields(st) {
		if f.embedded {
			t := f.typ
			if p, ok := t.Underlying().(*types.Pointer); ok {
				pv, _ := s[f.index].(*value)
				if pv == nil {
					nv := zero(p.Elem())
					pv = &nv
					s[f.index] = pv
				}
				if err := r.jsonAssignStruct(fr, p.Elem().Underlying().(*types.Struct), (*pv).(structure), obj); err != nil {
					return err
				}
				continue
			}
			if err := r.jsonAssignStruct(fr, t.Underlying().(*types.Struct), s[f.index].(structure), obj); err != nil {
				return err
			}
			continue
		}
		var jv interface{}
		found := false
		if v, ok := obj[f.name]; ok {
			jv, found = v, true
		} else {
			for k, v := range obj {
				if strings.EqualFold(k, f.name) {
					jv, found = v, true
					break
				}
			}
		}
		if !found {
			continue
		}
		if err := r.jsonAssign(fr, f.typ, &s[f.index], jv); err != nil {
			return err
		}
	}
	return nil
}

func (r *run) jsonGeneric(j interface{}) value {
	anyT := types.NewInterfaceType(nil, nil)
	switch x := j.(type) {
	case nil:
		return iface{}
	case string:
		return iface{t: types.Typ[types.String], v: x}
	case bool:
		return iface{t: types.Typ[types.Bool], v: x}
	case json.Number:
		f, _ := x.Float64()
		return iface{t: types.Typ[types.Float64], v: f}
	case []interface{}:
		out := make([]value, len(x))
		for i, e := range x {
			out[i] = r.jsonGeneric(e)
		}
		return iface{t: types.NewSlice(anyT), v: out}
	case map[string]interface{}:
		mv := &mapv{keyType: types.Typ[types.String]}
		keys := make([]string, 0, len(x))
		for k := range x {
			keys = append(keys, k)
		}
		sort.Strings(keys)
		for _, k := range keys {
			mv.entries = append(mv.entries, &mapEntry{key: k, val: r.jsonGeneric(x[k])})
		}
		return iface{t: types.NewMap(types.Typ[types.String], anyT), v: mv}
	}
	return iface{}
}

// havoc fills dst with fresh symbolic content (decoded from an unknown valid document).
func (r *run) jsonHavoc(t types.Type, dst *value, label string, depth int) {
	switch ut := t.Underlying().(type) {
	case *types.Basic:
		switch {
		case ut.Info()&types.IsString != 0:
			s := r.fresh("js", label, SStr)
			r.assertPC("(str.in_re " + s.t + " " + reBytes + ")")
			*dst = s
		case ut.Info()&types.IsBoolean != 0:
			*dst = r.fresh("jb", label, SBool)
		case ut.Info()&types.IsInteger != 0:
			ii, _ := intInfoOf(t)
			s := r.fresh("ji", label, SInt)
			lo, hi := "0", smtUint(^uint64(0)>>(64-uint(ii.bits)))
			if ii.signed {
				lo = smtInt(-1 << (ii.bits - 1))
				hi = smtInt(1<<(ii.bits-1) - 1)
			}
			r.assertPC(sx(">=", s.t, lo))
			r.assertPC(sx("<=", s.t, hi))
			*dst = s
		}
	case *types.Struct:
		s := (*dst).(structure)
		for i := 0; i < ut.NumFields(); i++ {
			f := ut.Field(i)
			if !f.Exported() && !f.Embedded() {
				continue
			}
			r.jsonHavoc(f.Type(), &s[i], label+"."+f.Name(), depth+1)
		}
	case *types.Pointer:
		if r.choose(2, "json-ptr") == 0 {
			*dst = zero(t)
			return
		}
		nv := zero(ut.Elem())
		r.jsonHavoc(ut.Elem(), &nv, label, depth+1)
		*dst = &nv
	case *types.Slice:
		if isByteSlice(t) {
			s := r.fresh("jbytes", label, SBytes)
			r.assertPC("(str.in_re " + s.t + " " + reBytes + ")")
			*dst = s
			return
		}
		n := r.choose(r.e.opts.jsonMaxElems+1, "json-len")
		if n == 0 {
			*dst = zero(t)
			return
		}
		out := make([]value, n)
		for i := range out {
			out[i] = zero(ut.Elem())
			r.jsonHavoc(ut.Elem(), &out[i], fmt.Sprintf("%s[%d]", label, i), depth+1)
		}
		*dst = out
	case *types.Map, *types.Interface:
		*dst = zero(t)
	}
}

func (r *run) jsonUnmarshal(fr *frame, data value, target value) iface {
	tgt, _ := target.(iface)
	if tgt.t == nil {
		return r.newError("json: Unmarshal(nil)")
	}
	pt, ok := tgt.t.Underlying().(*types.Pointer)
	if !ok {
		return r.newError("json: Unmarshal(non-pointer " + tgt.t.String() + ")")
	}
	dst, _ := tgt.v.(*value)
	if dst == nil {
		return r.newError("json: Unmarshal(nil " + tgt.t.String() + ")")
	}
	var concrete string
	isConc := false
	switch d := data.(type) {
	case []value:
		concrete, isConc = goBytes(d)
	case string:
		concrete, isConc = d, true
	}
	if isConc {
		dec := json.NewDecoder(strings.NewReader(concrete))
		dec.UseNumber()
		var j interface{}
		if err := dec.Decode(&j); err != nil {
			return r.newError(err.Error())
		}
		if dec.More() {
			return r.newError("invalid character after top-level value")
		}
		if err := r.jsonAssign(fr, pt.Elem(), dst, j); err != nil {
			return r.newError(err.Error())
		}
		return iface{}
	}
	// symbolic document
	dt := strTerm(data)
	if ok, err := r.jsonUnmarshalStructured(fr, dt, pt.Elem(), dst); ok {
		if err != nil {
			return r.newError(err.Error())
		}
		return iface{}
	}
	if !r.branch(boolSym("(json_valid " + dt + ")")) {
		return r.newError("invalid character looking for beginning of value")
	}
	if r.choose(2, "json-typeok") == 1 {
		// valid JSON of the wrong shape for the target
		return r.newError("json: cannot unmarshal into Go value")
	}
	r.jsonHavoc(pt.Elem(), dst, "json", 0)
	return iface{}
}

func addJSONIntrinsics(m map[string]intrinsicFn) {
	m["encoding/json.Marshal"] = func(fr *frame, a []value) value {
		s, err := fr.r.jsonMarshal(fr, a[0], true)
		if err.t != nil {
			return tuple{[]value(nil), err}
		}
		return tuple{toBytesVal(s), iface{}}
	}
	m["encoding/json.MarshalIndent"] = m["encoding/json.Marshal"]
	m["encoding/json.Unmarshal"] = func(fr *frame, a []value) value {
		return fr.r.jsonUnmarshal(fr, a[0], a[1])
	}
	m["encoding/json.Valid"] = func(fr *frame, a []value) value {
		switch d := a[0].(type) {
		case []value:
			if s, ok := goBytes(d); ok {
				return json.Valid([]byte(s))
			}
		}
		return boolSym("(json_valid " + strTerm(a[0]) + ")")
	}
	// Encoder: struct{w io.Writer; err error; escapeHTML bool; ...}
	m["(*encoding/json.Encoder).Encode"] = func(fr *frame, a []value) value {
		r := fr.r
		st := (*(a[0].(*value))).(structure)
		html, _ := st[2].(bool)
		s, err := r.jsonMarshal(fr, a[1], html)
		if err.t != nil {
			return err
		}
		res := r.callMethod(fr, st[0].(iface), "Write", toBytesVal(catStr([]value{s, "\n"}))).(tuple)
		return res[1]
	}
	// Decoder: field 0 is r io.Reader
	m["(*encoding/json.Decoder).Decode"] = func(fr *frame, a []value) value {
		r := fr.r
		st := (*(a[0].(*value))).(structure)
		data, rerr := r.readN(fr, st[0].(iface), nil)
		if rerr.t != nil {
			return rerr
		}
		if dv, ok := data.([]value); ok && len(dv) == 0 {
			pkg := r.e.prog.ImportedPackage("io")
			r.ensureInit(pkg)
			return (*r.globalAddr(pkg.Members["EOF"].(*ssaGlobal))).(iface)
		}
		return r.jsonUnmarshal(fr, data, a[1])
	}
}


type strPart struct {
	lit bool
	s   string
}

// structuredString recognises (str.++ p1 p2 ...) / a single part, where every part is a string
// literal or a formatted integer (fmt_int t); such strings need escaping only in their literals.
func structuredString(t string) ([]strPart, bool) {
	e := parseSexp(t)
	if e == nil {
		return nil, false
	}
	var parts []strPart
	var walk func(x *sexp) bool
	walk = func(x *sexp) bool {
		if x.list == nil {
			if len(x.atom) >= 2 && x.atom[0] == '"' {
				parts = append(parts, strPart{true, parseSmtStr(x.atom)})
				return true
			}
			return false
		}
		if len(x.list) == 0 {
			return false
		}
		switch x.list[0].atom {
		case "str.++":
			for _, c := range x.list[1:] {
				if !walk(c) {
					return false
				}
			}
			return true
		case "fmt_int":
			parts = append(parts, strPart{false, x.String()})
			return true
		}
		return false
	}
	if !walk(e) {
		return nil, false
	}
	hasSym := false
	for _, p := range parts {
		if !p.lit {
			hasSym = true
		}
	}
	return parts, hasSym
}


// jsonSymStr: a decoded JSON string that contains repeat-string holes
type jsonSymStr struct{ parts []value }

// jsonUnmarshalStructured handles a document that is a concatenation of literal JSON text and
// repeat-strings of a JSON-string-safe byte (strings.Repeat with a symbolic count) standing
// inside string tokens: the literal skeleton is decoded natively with placeholders.
func (r *run) jsonUnmarshalStructured(fr *frame, dt string, t types.Type, dst *value) (bool, error) {
	parts := flattenConcat(dt)
	var sb strings.Builder
	var holes []*sym
	for _, p := range parts {
		if len(p) >= 2 && p[0] == '"' {
			sb.WriteString(parseSmtStr(p))
			continue
		}
		rec, ok := r.repeats[p]
		if !ok {
			return false, nil
		}
		for i := 0; i < len(rec.lit); i++ {
			if c := rec.lit[i]; c == '"' || c == '\\' || c < 0x20 || c >= 0x7f || c == '@' {
				return false, nil
			}
		}
		sb.WriteString(fmt.Sprintf("@@H%d@@", len(holes)))
		holes = append(holes, &sym{p, SStr})
	}
	if len(holes) == 0 {
		return false, nil
	}
	dec := json.NewDecoder(strings.NewReader(sb.String()))
	dec.UseNumber()
	var j interface{}
	if err := dec.Decode(&j); err != nil || dec.More() {
		return false, nil
	}
	bad := false
	var subst func(x interface{}) interface{}
	subst = func(x interface{}) interface{} {
		switch v := x.(type) {
		case string:
			if !strings.Contains(v, "@@H") {
				return v
			}
			var ps []value
			for v != "" {
				i := strings.Index(v, "@@H")
				if i < 0 {
					ps = append(ps, v)
					break
				}
				if i > 0 {
					ps = append(ps, v[:i])
				}
				j := strings.Index(v[i+3:], "@@")
				if j < 0 {
					bad = true
					return v
				}
				k, err := strconv.Atoi(v[i+3 : i+3+j])
				if err != nil || k >= len(holes) {
					bad = true
					return v
				}
				ps = append(ps, holes[k])
				v = v[i+3+j+2:]
			}
			return jsonSymStr{ps}
		case []interface{}:
			for i := range v {
				v[i] = subst(v[i])
			}
			return v
		case map[string]interface{}:
			for k, e := range v {
				if strings.Contains(k, "@@H") {
					bad = true
				}
				v[k] = subst(e)
			}
			return v
		}
		return x
	}
	j = subst(j)
	if bad {
		return false, nil
	}
	return true, r.jsonAssign(fr, t, dst, j)
}
