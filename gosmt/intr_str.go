package main

import (
	"fmt"
	"go/types"
	"math"
	"strconv"
	"strings"
)

func ptrKey(p *value) string { return fmt.Sprintf("%p", p) }

func concStr(v value) (string, bool) {
	s, ok := v.(string)
	return s, ok
}

func strSym(t string) *sym  { return &sym{t, SStr} }
func boolSym(t string) *sym { return &sym{t, SBool} }
func intSym(t string) *sym  { return &sym{t, SInt} }

// strList converts a []string slice value to Go values.
func strList(v value) []value {
	if v == nil {
		return nil
	}
	return v.([]value)
}

func makeStrSlice(ss []value) value {
	out := make([]value, len(ss))
	copy(out, ss)
	return out
}

func addStringIntrinsics(m map[string]intrinsicFn) {
	bin := func(native func(a, b string) value, symf func(a, b string) value) intrinsicFn {
		return func(fr *frame, a []value) value {
			x, xo := concStr(a[0])
			y, yo := concStr(a[1])
			if xo && yo {
				return native(x, y)
			}
			return symf(strTerm(a[0]), strTerm(a[1]))
		}
	}
	m["strings.HasPrefix"] = bin(func(a, b string) value { return strings.HasPrefix(a, b) },
		func(a, b string) value { return boolSym(sx("str.prefixof", b, a)) })
	m["strings.HasSuffix"] = bin(func(a, b string) value { return strings.HasSuffix(a, b) },
		func(a, b string) value { return boolSym(sx("str.suffixof", b, a)) })
	m["strings.Contains"] = bin(func(a, b string) value { return strings.Contains(a, b) },
		func(a, b string) value { return boolSym(sx("str.contains", a, b)) })
	m["strings.Index"] = bin(func(a, b string) value { return int64(strings.Index(a, b)) },
		func(a, b string) value { return intSym(sx("str.indexof", a, b, "0")) })
	m["strings.Compare"] = bin(func(a, b string) value { return int64(strings.Compare(a, b)) },
		func(a, b string) value {
			return intSym("(ite (= " + a + " " + b + ") 0 (ite (str.< " + a + " " + b + ") (- 1) 1))")
		})
	m["strings.TrimPrefix"] = bin(func(a, b string) value { return strings.TrimPrefix(a, b) },
		func(a, b string) value {
			return strSym("(ite (str.prefixof " + b + " " + a + ") (str.substr " + a + " (str.len " + b + ") (- (str.len " + a + ") (str.len " + b + "))) " + a + ")")
		})
	m["strings.TrimSuffix"] = bin(func(a, b string) value { return strings.TrimSuffix(a, b) },
		func(a, b string) value {
			return strSym("(ite (str.suffixof " + b + " " + a + ") (str.substr " + a + " 0 (- (str.len " + a + ") (str.len " + b + "))) " + a + ")")
		})
	m["strings.EqualFold"] = func(fr *frame, a []value) value {
		x, xo := concStr(a[0])
		y, yo := concStr(a[1])
		if xo && yo {
			return strings.EqualFold(x, y)
		}
		// one side concrete: case-insensitive regex over ASCII letters
		var c string
		var s value
		if xo {
			c, s = x, a[1]
		} else if yo {
			c, s = y, a[0]
		} else {
			panic(unsupported{"strings.EqualFold(sym, sym)"})
		}
		var parts []string
		for i := 0; i < len(c); i++ {
			lo, up := strings.ToLower(string(c[i])), strings.ToUpper(string(c[i]))
			if lo != up {
				parts = append(parts, "(re.union (str.to_re "+smtStr(lo)+") (str.to_re "+smtStr(up)+"))")
			} else {
				parts = append(parts, "(str.to_re "+smtStr(string(c[i]))+")")
			}
		}
		re := `(str.to_re "")`
		if len(parts) == 1 {
			re = parts[0]
		} else if len(parts) > 1 {
			re = "(re.++ " + strings.Join(parts, " ") + ")"
		}
		return boolSym("(str.in_re " + strTerm(s) + " " + re + ")")
	}
	m["strings.LastIndex"] = func(fr *frame, a []value) value {
		x, xo := concStr(a[0])
		y, yo := concStr(a[1])
		if xo && yo {
			return int64(strings.LastIndex(x, y))
		}
		panic(unsupported{"strings.LastIndex on symbolic"})
	}
	m["strings.Join"] = func(fr *frame, a []value) value {
		elems := strList(a[0])
		allc := true
		for _, e := range elems {
			if _, ok := e.(string); !ok {
				allc = false
			}
		}
		sep, sepc := concStr(a[1])
		if allc && sepc {
			ss := make([]string, len(elems))
			for i, e := range elems {
				ss[i] = e.(string)
			}
			return strings.Join(ss, sep)
		}
		if len(elems) == 0 {
			return ""
		}
		var parts []string
		for i, e := range elems {
			if i > 0 {
				parts = append(parts, strTerm(a[1]))
			}
			parts = append(parts, strTerm(e))
		}
		if len(parts) == 1 {
			return elems[0]
		}
		return strSym(sx("str.++", parts...))
	}
	m["strings.Split"] = func(fr *frame, a []value) value {
		x, xo := concStr(a[0])
		y, yo := concStr(a[1])
		if xo && yo {
			return goStrings(strings.Split(x, y))
		}
		panic(unsupported{"strings.Split on symbolic string (use a concrete-structured input)"})
	}
	m["strings.SplitN"] = func(fr *frame, a []value) value {
		r := fr.r
		x, xo := concStr(a[0])
		y, yo := concStr(a[1])
		n := asInt64(a[2])
		if xo && yo {
			return goStrings(strings.SplitN(x, y, int(n)))
		}
		if n == 2 && yo && y != "" {
			s := strTerm(a[0])
			sep := smtStr(y)
			if r.branch(boolSym(sx("str.contains", s, sep))) {
				idx := sx("str.indexof", s, sep, "0")
				head := strSym(sx("str.substr", s, "0", idx))
				tailStart := sx("+", idx, smtInt(int64(len(y))))
				tail := strSym(sx("str.substr", s, tailStart, sx("-", "(str.len "+s+")", tailStart)))
				return []value{head, tail}
			}
			return []value{a[0]}
		}
		panic(unsupported{"strings.SplitN on symbolic string"})
	}
	m["strings.Cut"] = func(fr *frame, a []value) value {
		r := fr.r
		x, xo := concStr(a[0])
		y, yo := concStr(a[1])
		if xo && yo {
			b, af, f := strings.Cut(x, y)
			return tuple{b, af, f}
		}
		s := strTerm(a[0])
		sep := strTerm(a[1])
		if r.branch(boolSym(sx("str.contains", s, sep))) {
			idx := sx("str.indexof", s, sep, "0")
			head := strSym(sx("str.substr", s, "0", idx))
			tailStart := sx("+", idx, "(str.len "+sep+")")
			tail := strSym(sx("str.substr", s, tailStart, sx("-", "(str.len "+s+")", tailStart)))
			return tuple{head, tail, true}
		}
		return tuple{a[0], "", false}
	}
	m["strings.Fields"] = func(fr *frame, a []value) value {
		if x, ok := concStr(a[0]); ok {
			return goStrings(strings.Fields(x))
		}
		// a symbolic string is split only if it was built by the harness from
		// space-free tokens: recognise (str.++ t1 " " t2 ...) is not attempted; instead
		// the contract is: result tokens are fresh, space-free, non-empty, and joining them
		// with single separators of whitespace yields the input. Bounded to <= maxFields tokens.
		if toks, ok := fr.r.structuredFields(a[0].(*sym)); ok {
			return toks
		}
		return fr.r.symFields(a[0].(*sym))
	}
	m["strings.ReplaceAll"] = func(fr *frame, a []value) value {
		x, xo := concStr(a[0])
		y, yo := concStr(a[1])
		z, zo := concStr(a[2])
		if xo && yo && zo {
			return strings.ReplaceAll(x, y, z)
		}
		if yo && y == "" {
			panic(unsupported{"ReplaceAll with empty pattern on symbolic"})
		}
		// declared tokens contain no parentheses / whitespace: replacing those is the identity on them
		if xs, ok := a[0].(*sym); ok && yo && zo && (y == "(" || y == ")" || y == " ") {
			if parts, ok := fr.r.tokenParts(xs.t); ok {
				var out []value
				for _, p := range parts {
					if p.lit {
						out = append(out, strings.ReplaceAll(p.s, y, z))
					} else {
						out = append(out, strSym(p.s))
					}
				}
				return catStr(out)
			}
		}
		return strSym(sx("str.replace_all", strTerm(a[0]), strTerm(a[1]), strTerm(a[2])))
	}
	m["strings.Replace"] = func(fr *frame, a []value) value {
		x, xo := concStr(a[0])
		y, yo := concStr(a[1])
		z, zo := concStr(a[2])
		n := asInt64(a[3])
		if xo && yo && zo {
			return strings.Replace(x, y, z, int(n))
		}
		if n < 0 {
			return strSym(sx("str.replace_all", strTerm(a[0]), strTerm(a[1]), strTerm(a[2])))
		}
		if n == 1 {
			return strSym(sx("str.replace", strTerm(a[0]), strTerm(a[1]), strTerm(a[2])))
		}
		panic(unsupported{"strings.Replace n>1 on symbolic"})
	}
	un := func(name string, native func(string) string) {
		m[name] = func(fr *frame, a []value) value {
			if x, ok := concStr(a[0]); ok {
				return native(x)
			}
			panic(unsupported{name + " on symbolic string"})
		}
	}
	un("strings.ToUpper", strings.ToUpper)
	un("strings.Title", strings.Title)
	m["strings.ToLower"] = func(fr *frame, a []value) value {
		if x, ok := concStr(a[0]); ok {
			return strings.ToLower(x)
		}
		// uninterpreted but constrained: same length; identity when no upper-case ASCII letter occurs
		r := fr.r
		s := a[0].(*sym)
		res := r.fresh("lower", "strings.ToLower", SStr)
		r.assertPC(sx("=", "(str.len "+res.t+")", "(str.len "+s.t+")"))
		r.assertPC("(=> (not (str.in_re " + s.t + ` (re.++ re.all (re.range "A" "Z") re.all))) (= ` + res.t + " " + s.t + "))")
		r.assertPC("(not (str.in_re " + res.t + ` (re.++ re.all (re.range "A" "Z") re.all)))`)
		return res
	}
	m["strings.TrimSpace"] = func(fr *frame, a []value) value {
		if x, ok := concStr(a[0]); ok {
			return strings.TrimSpace(x)
		}
		// contract: result is a substring without leading/trailing ASCII space characters,
		// input = ws* ++ result ++ ws*
		r := fr.r
		s := a[0].(*sym)
		res := r.fresh("trim", "strings.TrimSpace", SStr)
		ws := `(re.* (re.union (str.to_re " ") (re.range "\u{9}" "\u{d}")))`
		wsc := `(re.union (str.to_re " ") (re.range "\u{9}" "\u{d}"))`
		pre := r.fresh("trimpre", "ws prefix", SStr)
		post := r.fresh("trimpost", "ws suffix", SStr)
		r.assertPC("(= " + s.t + " (str.++ " + pre.t + " " + res.t + " " + post.t + "))")
		r.assertPC("(str.in_re " + pre.t + " " + ws + ")")
		r.assertPC("(str.in_re " + post.t + " " + ws + ")")
		r.assertPC("(not (str.in_re " + res.t + " (re.++ " + wsc + " re.all)))")
		r.assertPC("(not (str.in_re " + res.t + " (re.++ re.all " + wsc + ")))")
		return res
	}
	m["strings.Trim"] = func(fr *frame, a []value) value {
		x, xo := concStr(a[0])
		y, yo := concStr(a[1])
		if xo && yo {
			return strings.Trim(x, y)
		}
		panic(unsupported{"strings.Trim on symbolic"})
	}
	// cloning a string is the identity on values (the real code uses unsafe.String)
	m["strings.Clone"] = func(fr *frame, a []value) value { return a[0] }
	m["internal/stringslite.Clone"] = func(fr *frame, a []value) value { return a[0] }
	m["strings.Repeat"] = func(fr *frame, a []value) value {
		x, xo := concStr(a[0])
		if xo {
			if n, ok := a[1].(int64); ok {
				if n < 0 || n > 1<<20 {
					panic(unsupported{"strings.Repeat count"})
				}
				return strings.Repeat(x, int(n))
			}
			if n, ok := a[1].(*sym); ok && len(x) > 0 {
				r := fr.r
				if !r.branch(&sym{sx(">=", n.t, "0"), SBool}) {
					panic(targetPanic{msg: "strings: negative Repeat count"})
				}
				return r.newRepeat(x, n.t, "repeat "+strconv.Quote(x))
			}
		}
		panic(unsupported{"strings.Repeat on symbolic"})
	}

	// strings.Builder: struct{addr *Builder; buf []byte}
	bbuf := func(a []value) *value {
		p := a[0].(*value)
		return &(*p).(structure)[1]
	}
	m["(*strings.Builder).String"] = func(fr *frame, a []value) value {
		b := *bbuf(a)
		switch b := b.(type) {
		case *sym:
			return &sym{b.t, SStr}
		case []value:
			if s, ok := goBytes(b); ok {
				return s
			}
			return strSym(strTerm(b))
		}
		return ""
	}
	m["(*strings.Builder).Len"] = func(fr *frame, a []value) value {
		return fr.r.callBuiltinLen(*bbuf(a))
	}
	m["(*strings.Builder).Reset"] = func(fr *frame, a []value) value {
		*bbuf(a) = []value(nil)
		return nil
	}
	m["(*strings.Builder).Grow"] = func(fr *frame, a []value) value { return nil }
	appendTo := func(p *value, s value) {
		cur := *p
		if cs, ok := cur.([]value); ok {
			if str, ok := s.(string); ok {
				*p = append(cs, bytesToValues(str)...)
				return
			}
			if bs, ok := s.([]value); ok {
				*p = append(cs, bs...)
				return
			}
			*p = &sym{sx("str.++", strTerm(cs), strTerm(s)), SBytes}
			return
		}
		*p = &sym{sx("str.++", strTerm(cur), strTerm(s)), SBytes}
	}
	m["(*strings.Builder).WriteString"] = func(fr *frame, a []value) value {
		appendTo(bbuf(a), a[1])
		return tuple{fr.r.callBuiltinLen(a[1]), iface{}}
	}
	m["(*strings.Builder).Write"] = m["(*strings.Builder).WriteString"]
	m["(*strings.Builder).WriteByte"] = func(fr *frame, a []value) value {
		appendTo(bbuf(a), []value{a[1]})
		return iface{}
	}
	m["(*strings.Builder).WriteRune"] = func(fr *frame, a []value) value {
		rn, ok := a[1].(int64)
		if !ok {
			panic(unsupported{"WriteRune symbolic"})
		}
		s := string(rune(rn))
		appendTo(bbuf(a), s)
		return tuple{int64(len(s)), iface{}}
	}

	// strconv
	m["strconv.Itoa"] = func(fr *frame, a []value) value { return fr.r.fmtInt(a[0], true) }
	m["strconv.FormatInt"] = func(fr *frame, a []value) value {
		base := asInt64(a[1])
		if x, ok := a[0].(int64); ok {
			return strconv.FormatInt(x, int(base))
		}
		if base != 10 {
			panic(unsupported{"FormatInt base != 10 symbolic"})
		}
		return fr.r.fmtInt(a[0], true)
	}
	m["strconv.FormatUint"] = func(fr *frame, a []value) value {
		base := asInt64(a[1])
		if x, ok := a[0].(uint64); ok {
			return strconv.FormatUint(x, int(base))
		}
		if base != 10 {
			panic(unsupported{"FormatUint base != 10 symbolic"})
		}
		return fr.r.fmtInt(a[0], false)
	}
	m["strconv.Quote"] = func(fr *frame, a []value) value {
		if x, ok := concStr(a[0]); ok {
			return strconv.Quote(x)
		}
		return strSym(sx("str.++", `"\u{22}"`, strTerm(a[0]), `"\u{22}"`))
	}
	parseInt := func(fr *frame, s value, base int64, bits int64, fname string) value {
		r := fr.r
		if x, ok := concStr(s); ok {
			v, err := strconv.ParseInt(x, int(base), int(bits))
			if err != nil {
				return tuple{v, r.numError(fname, s, err.(*strconv.NumError).Err == strconv.ErrRange)}
			}
			return tuple{v, iface{}}
		}
		if base != 10 && base != 0 {
			panic(unsupported{"ParseInt base on symbolic"})
		}
		if bits == 0 {
			bits = 64
		}
		st := s.(*sym).t
		maxV := int64(math.MaxInt64)
		minV := int64(math.MinInt64)
		switch bits {
		case 32:
			maxV, minV = math.MaxInt32, math.MinInt32
		case 16:
			maxV, minV = math.MaxInt16, math.MinInt16
		case 8:
			maxV, minV = math.MaxInt8, math.MinInt8
		}
		// a string produced by formatting an integer parses back to that integer
		if strings.HasPrefix(st, "(fmt_int ") && strings.HasSuffix(st, ")") {
			inner := st[len("(fmt_int ") : len(st)-1]
			inRange := smtAnd(sx("<=", smtInt(minV), inner), sx("<=", inner, smtInt(maxV)))
			if !r.branch(boolSym(inRange)) {
				return tuple{intSym("(ite (< " + inner + " 0) " + smtInt(minV) + " " + smtInt(maxV) + ")"), r.numError(fname, s, true)}
			}
			return tuple{intSym(inner), iface{}}
		}
		// Contract for an arbitrary symbolic string: the syntactic check and the value are
		// uninterpreted functions of (string, base, bits) -- the same string always parses to the
		// same result -- constrained by: "" does not parse, and a parsed value lies in the range of
		// the requested size. (The digit-level meaning of the string is outside the encoding; z3's
		// str.to_int makes every later query on the path time out.)
		okF := fmt.Sprintf("parse_ok_%d_%d", base, bits)
		valF := fmt.Sprintf("parse_val_%d_%d", base, bits)
		r.declareOnce(okF, "(declare-fun "+okF+" (String) Bool)")
		r.declareOnce(valF, "(declare-fun "+valF+" (String) Int)")
		r.declareOnce(okF+"_rng", "(declare-fun "+okF+"_rng (String) Bool)")
		r.parseApps = append(r.parseApps, parseApp{str: st, okF: okF, valF: valF})
		if r.branch(boolSym("(" + okF + " " + st + ")")) {
			v := "(" + valF + " " + st + ")"
			r.assertPC("(not (= " + st + " \"\"))")
			r.assertPC(sx("<=", smtInt(minV), v))
			r.assertPC(sx("<=", v, smtInt(maxV)))
			return tuple{intSym(v), iface{}}
		}
		// failure: syntax error (value 0) or out of range (clamped value)
		if r.branch(boolSym("(" + okF + "_rng " + st + ")")) {
			r.assertPC("(not (= " + st + " \"\"))")
			neg := "(str.prefixof \"-\" " + st + ")"
			return tuple{intSym("(ite " + neg + " " + smtInt(minV) + " " + smtInt(maxV) + ")"), r.numError(fname, s, true)}
		}
		return tuple{int64(0), r.numError(fname, s, false)}
	}
	m["strconv.ParseInt"] = func(fr *frame, a []value) value {
		return parseInt(fr, a[0], asInt64(a[1]), asInt64(a[2]), "ParseInt")
	}
	m["strconv.Atoi"] = func(fr *frame, a []value) value {
		return parseInt(fr, a[0], 10, 64, "Atoi")
	}
	m["strconv.ParseBool"] = func(fr *frame, a []value) value {
		if x, ok := concStr(a[0]); ok {
			v, err := strconv.ParseBool(x)
			if err != nil {
				return tuple{v, fr.r.numError("ParseBool", a[0], false)}
			}
			return tuple{v, iface{}}
		}
		panic(unsupported{"ParseBool symbolic"})
	}
}

func goStrings(ss []string) value {
	out := make([]value, len(ss))
	for i, s := range ss {
		out[i] = s
	}
	return out
}

func (r *run) callBuiltinLen(v value) value {
	switch v := v.(type) {
	case string:
		return int64(len(v))
	case []value:
		return int64(len(v))
	case *sym:
		return intSym("(str.len " + v.t + ")")
	case nil:
		return int64(0)
	}
	panic(fmt.Sprintf("len of %T", v))
}

// numError builds a *strconv.NumError.
func (r *run) numError(fn string, num value, rng bool) iface {
	t := r.e.namedType("strconv", "NumError")
	pkg := r.e.prog.ImportedPackage("strconv")
	r.ensureInit(pkg)
	errName := "ErrSyntax"
	if rng {
		errName = "ErrRange"
	}
	var errv value = iface{}
	if g, ok := pkg.Members[errName].(*ssaGlobal); ok {
		errv = *r.globalAddr(g)
	}
	var s value = structure{fn, num, errv}
	return iface{t: types.NewPointer(t), v: &s}
}

// fmtInt renders an integer value in decimal.
func (r *run) fmtInt(v value, signed bool) value {
	switch x := v.(type) {
	case int64:
		return strconv.FormatInt(x, 10)
	case uint64:
		return strconv.FormatUint(x, 10)
	case *sym:
		return strSym("(fmt_int " + x.t + ")")
	}
	panic(fmt.Sprintf("fmtInt %T", v))
}

// symFields implements strings.Fields on a symbolic string under a bounded contract.
func (r *run) symFields(s *sym) value {
	maxF := 3
	n := r.choose(maxF+1, "fields-count")
	wsc := `(re.union (str.to_re " ") (re.range "\u{9}" "\u{d}"))`
	ws0 := "(re.* " + wsc + ")"
	ws1 := "(re.+ " + wsc + ")"
	nonws := `(re.+ (re.diff (re.range "\u{0}" "\u{ff}") ` + wsc + `))`
	var toks []value
	parts := []string{}
	lead := r.fresh("fws", "fields ws", SStr)
	r.assertPC("(str.in_re " + lead.t + " " + ws0 + ")")
	parts = append(parts, lead.t)
	for i := 0; i < n; i++ {
		t := r.fresh("ftok", "fields token", SStr)
		r.assertPC("(str.in_re " + t.t + " " + nonws + ")")
		toks = append(toks, t)
		parts = append(parts, t.t)
		w := r.fresh("fws", "fields ws", SStr)
		if i < n-1 {
			r.assertPC("(str.in_re " + w.t + " " + ws1 + ")")
		} else {
			r.assertPC("(str.in_re " + w.t + " " + ws0 + ")")
		}
		parts = append(parts, w.t)
	}
	if len(parts) == 1 {
		r.assertPC("(= " + s.t + " " + parts[0] + ")")
	} else {
		r.assertPC("(= " + s.t + " (str.++ " + strings.Join(parts, " ") + "))")
	}
	if n == maxF {
		// more than maxF fields is outside the bound: nothing to add, the last token is space-free
	}
	if r.solver.Check() == Unsat {
		panic(pathEnd{"fields infeasible"})
	}
	return toks
}


// tokenParts splits a term into literals and declared token variables (nil,false if anything else occurs).
func (r *run) tokenParts(t string) ([]strPart, bool) {
	e := parseSexp(t)
	if e == nil {
		return nil, false
	}
	var parts []strPart
	var walk func(x *sexp) bool
	walk = func(x *sexp) bool {
		if x.list == nil {
			if len(x.atom) >= 2 && x.atom[0] == '"' {
				parts = append(parts, strPart{true, parseSmtStr(x.atom)})
				return true
			}
			if r.tokens[x.atom] {
				parts = append(parts, strPart{false, x.atom})
				return true
			}
			return false
		}
		if len(x.list) > 0 && x.list[0].atom == "str.++" {
			for _, c := range x.list[1:] {
				if !walk(c) {
					return false
				}
			}
			return true
		}
		return false
	}
	if !walk(e) {
		return nil, false
	}
	return parts, true
}

// structuredFields implements strings.Fields on a concatenation of declared tokens and literals.
func (r *run) structuredFields(s *sym) (value, bool) {
	parts, ok := r.tokenParts(s.t)
	if !ok {
		return nil, false
	}
	var fields []value
	var cur []value
	flush := func() {
		if len(cur) > 0 {
			fields = append(fields, catStr(cur))
			cur = nil
		}
	}
	for _, p := range parts {
		if !p.lit {
			cur = append(cur, strSym(p.s))
			continue
		}
		// split the literal at whitespace
		word := ""
		for i := 0; i < len(p.s); i++ {
			c := p.s[i]
			if c == ' ' || (c >= 9 && c <= 13) {
				if word != "" {
					cur = append(cur, word)
					word = ""
				}
				flush()
			} else {
				word += string(c)
			}
		}
		if word != "" {
			cur = append(cur, word)
		}
	}
	flush()
	return fields, true
}
