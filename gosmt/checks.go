package main

// Registry: property id -> harness entry points and bounds.

const (
	pkgCore       = modulePath + "/lambda/core"
	pkgFatalerror = modulePath + "/lambda/fatalerror"
	pkgDirect     = modulePath + "/lambda/core/directinvoke"
	pkgBW         = modulePath + "/lambda/core/bandwidthlimiter"
)

func frozen(h *harnessSpec) *harnessSpec { h.frozenClock = true; return h }
func ticks(h *harnessSpec, n int) *harnessSpec { h.maxTicks = n; return h }

func hs(pkg, name string, pb int, desc string, reach ...string) *harnessSpec {
	return &harnessSpec{name: name, pkg: pkg, preemptionBound: pb, maxTicks: 3, desc: desc, needReach: reach}
}

var checkRegistry = []*checkSpec{
	{
		id: "C11", level: "other",
		quick: []*harnessSpec{
			hs(pkgCore, "VerifC11Gate_W1_D2", 2, "gateImpl vs abstract latch: 1 waiter, 2 symbolic driver ops, every interleaving with <=2 preemptions", "waiter-nil", "waiter-err", "waiter-canceled", "waiter-parked"),
			hs(pkgCore, "VerifC11Gate_W2_D3", 2, "gateImpl vs abstract latch: 2 waiters, 3 symbolic driver ops", "waiter-nil", "waiter-parked"),
		},
		thorough: []*harnessSpec{
			hs(pkgCore, "VerifC11Gate_W1_D2", 3, "1 waiter, 2 ops, <=3 preemptions", "waiter-nil"),
			hs(pkgCore, "VerifC11Gate_W2_D3", 3, "2 waiters, 3 ops, <=3 preemptions", "waiter-nil"),
			hs(pkgCore, "VerifC11Gate_W2_D4", 2, "2 waiters, 4 ops", "waiter-nil"),
			hs(pkgCore, "VerifC11Gate_W3_D4", 2, "3 waiters, 4 ops", "waiter-nil"),
		},
		assume:  []string{"context switches only at synchronisation operations (data-race-free code)", "sync.Mutex/sync.Cond contracts of gosmt (no spurious wake-ups, FIFO Signal)"},
		outside: []string{"more waiters / longer driver scripts than the stated bounds", "schedules with more preemptions than the bound"},
	},
	{
		id: "C20", level: "other",
		quick: []*harnessSpec{
			hs(pkgFatalerror, "VerifC20ErrorType", 0, "GetValidRuntimeOrFunctionErrorType on an arbitrary printable-ASCII string of any length vs the exact-form specification", "exact", "function-unknown", "runtime-unknown"),
		},
		assume:  []string{"header values are printable ASCII (net/http rejects the rest)", "regexp.MatchString contract: constant pattern translated to an SMT-LIB RegLan"},
		outside: []string{"HTTP transport"},
	},
}

func init() {
	c17 := []*harnessSpec{
		frozen(hs(pkgDirect, "VerifC17Stateless", 0, "ReceiveDirectInvoke from havocked package variables (any request history) vs a fresh process: same outcome (relational)", "accepted", "refused", "streaming")),
		hs(pkgDirect, "VerifC17Validation", 0, "ReceiveDirectInvoke: token validation, header defaults and ranges, symbolic headers and token", "ok", "ok-streaming", "refused"),
		hs(pkgDirect, "VerifC17Classify", 0, "sendPayloadLimitedResponse: payload of symbolic length/content, symbolic limit, symbolic copy error: forwarded bytes and Complete/Oversized/Truncated", "complete", "oversized", "truncated"),
		hs(pkgDirect, "VerifC17BucketParams", 0, "NewStreamedResponseWriter arithmetic for every rate/burst in the validated ranges", "writer"),
		hs(pkgBW, "VerifC17BucketStep", 0, "one step of Bucket.produceTokens/consumeTokens from an arbitrary valid state preserves sent+tokens <= burst+refills (inductive lemma)", "produce", "consume-ok", "consume-refused"),
		hs(pkgBW, "VerifC17Chunks", 0, "ChunkIterator partitions a buffer of symbolic length (<= 3 chunks) in order", "three-chunks"),
		ticks(hs(pkgBW, "VerifC17Writer", 1, "BandwidthLimitingWriter.Write with its real ticker goroutine: order, chunk size, termination, volume bound; all interleavings <= 1 preemption, ticker unwound 4 times", "two-chunks", "waited-for-refill"), 4),
	}
	c17t := append([]*harnessSpec{}, c17[:len(c17)-1]...)
	wt := ticks(hs(pkgBW, "VerifC17Writer", 2, "as quick, <= 2 preemptions, ticker unwound 4 times", "two-chunks", "waited-for-refill"), 4)
	wt.maxPaths = 3000000
	c17t = append(c17t, wt)
	checkRegistry = append(checkRegistry, &checkSpec{
		id: "C17", level: "other", quick: c17, thorough: c17t,
		assume: []string{"strconv.ParseInt on a symbolic header is an uninterpreted function of the string (same string, same result; empty string does not parse; result within int64)", "Customer-Headers header absent (base64+JSON decoding not encoded)", "clock frozen in the relational harness", "time.Ticker contract: a tick may fire at any scheduling point; ticker unwound to 5 ticks"},
		outside: []string{"real ticker jitter, TCP back-pressure, http.Flusher", "streaming select/reset path of sendStreamingInvokeResponse (not yet encoded)", "payloads longer than 2^30 bytes"},
	})
}

func maxprog(h *harnessSpec) *harnessSpec { h.maximalProgress = true; return h }

func init() {
	pkgRC := modulePath + "/lambda/rapidcore"
	checkRegistry = append(checkRegistry, &checkSpec{
		id: "C10", level: "other",
		quick: []*harnessSpec{
			maxprog(hs(pkgRC, "VerifC10TwoCallers", 2, "two concurrent callers of the real Server.Invoke + a following sequential one; stub sandbox; all schedules with <=2 delays", "refused", "both-served-sequentially")),
		},
		thorough: []*harnessSpec{
			maxprog(hs(pkgRC, "VerifC10TwoCallers", 3, "as quick with <=3 delays", "refused", "both-served-sequentially")),
		},
		assume:  []string{"stub sandbox: init succeeds, the runtime answers each dispatched invocation", "timers fire only when no thread can run (maximal progress)", "context switches only at synchronisation operations"},
		outside: []string{"a third concurrent caller", "arrival during a timeout reset (covered by C05's harness)", "HTTP front end mapping to 400"},
	})
}

func findCheck(id string) *checkSpec {
	for _, c := range checkRegistry {
		if c.id == id {
			return c
		}
	}
	return nil
}
