package main

// Registry: property id -> harness entry points and bounds.

const (
	pkgCore       = modulePath + "/lambda/core"
	pkgFatalerror = modulePath + "/lambda/fatalerror"
)

func hs(pkg, name string, pb int, desc string, reach ...string) *harnessSpec {
	return &harnessSpec{name: name, pkg: pkg, preemptionBound: pb, maxTicks: 3, desc: desc, needReach: reach}
}

var checkRegistry = []*checkSpec{
	{
		id: "C11", level: "other",
		quick: []*harnessSpec{
			hs(pkgCore, "VerifC11Gate_W1_D2", 2, "gateImpl vs abstract latch: 1 waiter, 2 symbolic driver ops, every interleaving with <=2 preemptions", "waiter-nil", "waiter-err", "waiter-canceled", "waiter-parked"),
			hs(pkgCore, "VerifC11Gate_W2_D3", 2, "gateImpl vs abstract latch: 2 waiters, 3 symbolic driver ops", "waiter-nil", "waiter-parked"),
		},
		thorough: []*harnessSpec{
			hs(pkgCore, "VerifC11Gate_W1_D2", 3, "1 waiter, 2 ops, <=3 preemptions", "waiter-nil"),
			hs(pkgCore, "VerifC11Gate_W2_D3", 3, "2 waiters, 3 ops, <=3 preemptions", "waiter-nil"),
			hs(pkgCore, "VerifC11Gate_W2_D4", 2, "2 waiters, 4 ops", "waiter-nil"),
			hs(pkgCore, "VerifC11Gate_W3_D4", 2, "3 waiters, 4 ops", "waiter-nil"),
		},
		assume:  []string{"context switches only at synchronisation operations (data-race-free code)", "sync.Mutex/sync.Cond contracts of gosmt (no spurious wake-ups, FIFO Signal)"},
		outside: []string{"more waiters / longer driver scripts than the stated bounds", "schedules with more preemptions than the bound"},
	},
	{
		id: "C20", level: "other",
		quick: []*harnessSpec{
			hs(pkgFatalerror, "VerifC20ErrorType", 0, "GetValidRuntimeOrFunctionErrorType on an arbitrary printable-ASCII string of any length vs the exact-form specification", "exact", "function-unknown", "runtime-unknown"),
		},
		assume:  []string{"header values are printable ASCII (net/http rejects the rest)", "regexp.MatchString contract: constant pattern translated to an SMT-LIB RegLan"},
		outside: []string{"HTTP transport"},
	},
}

func findCheck(id string) *checkSpec {
	for _, c := range checkRegistry {
		if c.id == id {
			return c
		}
	}
	return nil
}
