package main

// Registry: property id -> harness entry points and bounds.

const (
	pkgCore       = modulePath + "/lambda/core"
	pkgFatalerror = modulePath + "/lambda/fatalerror"
	pkgDirect     = modulePath + "/lambda/core/directinvoke"
	pkgBW         = modulePath + "/lambda/core/bandwidthlimiter"
)

func frozen(h *harnessSpec) *harnessSpec { h.frozenClock = true; return h }

// strh: string-heavy sequential harness: cvc5 decides, z3 is consulted when cvc5 answers unknown
func strh(h *harnessSpec) *harnessSpec { h.solver, h.altSolver = "cvc5", true; return h }
func ticks(h *harnessSpec, n int) *harnessSpec { h.maxTicks = n; return h }

func hs(pkg, name string, pb int, desc string, reach ...string) *harnessSpec {
	return &harnessSpec{name: name, pkg: pkg, preemptionBound: pb, maxTicks: 3, desc: desc, needReach: reach}
}

var checkRegistry = []*checkSpec{
	{
		id: "C11", level: "other",
		quick: []*harnessSpec{
			hs(pkgCore, "VerifC11Gate_W1_D2", 2, "gateImpl vs abstract latch: 1 waiter, 2 symbolic driver ops, every interleaving with <=2 preemptions", "waiter-nil", "waiter-err", "waiter-canceled", "waiter-parked"),
			hs(pkgCore, "VerifC11Gate_W2_D3", 2, "gateImpl vs abstract latch: 2 waiters, 3 symbolic driver ops", "waiter-nil", "waiter-parked"),
		},
		thorough: []*harnessSpec{
			hs(pkgCore, "VerifC11Gate_W1_D2", 3, "1 waiter, 2 ops, <=3 preemptions", "waiter-nil"),
			hs(pkgCore, "VerifC11Gate_W2_D3", 3, "2 waiters, 3 ops, <=3 preemptions", "waiter-nil"),
			hs(pkgCore, "VerifC11Gate_W2_D4", 1, "2 waiters, 4 ops, <=1 preemption", "waiter-nil"),
			hs(pkgCore, "VerifC11Gate_W3_D4", 1, "3 waiters, 4 ops, <=1 preemption", "waiter-nil"),
		},
		assume:  []string{"context switches only at synchronisation operations (data-race-free code)", "sync.Mutex/sync.Cond contracts of gosmt (no spurious wake-ups, FIFO Signal)"},
		outside: []string{"more waiters / longer driver scripts than the stated bounds", "schedules with more preemptions than the bound"},
	},
	{
		id: "C20", level: "other",
		quick: []*harnessSpec{
			strh(hs(pkgFatalerror, "VerifC20ErrorType", 0, "GetValidRuntimeOrFunctionErrorType on an arbitrary printable-ASCII string of any length vs the exact-form specification", "exact", "function-unknown", "runtime-unknown")),
			strh(hs(modulePath+"/lambda/appctx", "VerifC20RuntimeRelease", 0, "CreateRuntimeReleaseFromRequest: user agent absent / token / token + text, 0..3 feature tokens of symbolic lengths: result form and the 128-byte bound", "no-features", "features-appended")),
			strh(hs(modulePath+"/lambda/appctx", "VerifC20RuntimeReleaseFixed", 0, "UpdateAppCtxWithRuntimeRelease: a stored value ending in the feature list is unchanged by any later request", "done")),
			strh(hs(modulePath+"/lambda/rapi/model", "VerifC20ErrorCauseEmpty", 0, "ValidatedErrorCauseJSON: all-empty and invalid documents are dropped, recognised fields are passed on", "done")),
			strh(hs(modulePath+"/lambda/rapi/model", "VerifC20Crop", 0, "cropString: prefix + truncation mark, length bound, symbolic string and length", "cropped")),
			strh(hs(modulePath+"/lambda/rapi/model", "VerifC20ErrorCauseEscape", 0, "ValidatedErrorCauseJSON on an escape-heavy document: the message is k plain letters followed by n characters that encoding/json escapes with six bytes each, k and n SYMBOLIC (0..400000), sent raw by the runtime: the accepted cause is at most 64 KiB (document smaller AND larger than the limit)", "accepted", "small-input")),
		},
		assume:  []string{"header values are printable ASCII (net/http rejects the rest)", "regexp.MatchString contract: constant pattern translated to an SMT-LIB RegLan", "user agent and features are built from declared whitespace-free tokens of symbolic length (strings.Fields / ReplaceAll act structurally on them)"},
		outside: []string{"error causes other than {message of plain letters followed by html-escaped characters, fixed working directory}: escaping of arbitrary byte strings is an uninterpreted contract with length bounds only; exceptions/paths arrays with symbolic elements", "HTTP transport"},
	},
}

func init() {
	c17 := []*harnessSpec{
		frozen(strh(hs(pkgDirect, "VerifC17Stateless", 0, "ReceiveDirectInvoke from havocked package variables (any request history) vs a fresh process: same outcome (relational)", "accepted", "refused", "streaming"))),
		strh(hs(pkgDirect, "VerifC17Validation", 0, "ReceiveDirectInvoke: token validation, header defaults and ranges, symbolic headers and token", "ok", "ok-streaming", "refused")),
		strh(hs(pkgDirect, "VerifC17Classify", 0, "sendPayloadLimitedResponse: payload of symbolic length/content, symbolic limit, symbolic copy error: forwarded bytes and Complete/Oversized/Truncated", "complete", "oversized", "truncated")),
		ticks(cclock(hs(pkgDirect, "VerifC17StreamReset", 2, "sendStreamingInvokeResponse with its real copy goroutine, throttler and ticker: a reset arriving while the /response body stalls is acknowledged, the connection is closed, the copy terminates and is classified Truncated; uninterrupted copy is Complete", "reset-during-stall", "complete")), 2),
		hs(pkgDirect, "VerifC17BucketParams", 0, "NewStreamedResponseWriter arithmetic for every rate/burst in the validated ranges", "writer"),
		hs(pkgBW, "VerifC17BucketStep", 0, "one step of Bucket.produceTokens/consumeTokens from an arbitrary valid state preserves sent+tokens <= burst+refills (inductive lemma)", "produce", "consume-ok", "consume-refused"),
		hs(pkgBW, "VerifC17Chunks", 0, "ChunkIterator partitions a buffer of symbolic length (<= 3 chunks) in order", "three-chunks"),
		ticks(hs(pkgBW, "VerifC17Writer", 1, "BandwidthLimitingWriter.Write with its real ticker goroutine: order, chunk size, termination, volume bound; all interleavings <= 1 preemption, ticker unwound 4 times", "two-chunks", "waited-for-refill"), 4),
	}
	c17t := append([]*harnessSpec{}, c17[:len(c17)-1]...)
	wt := ticks(hs(pkgBW, "VerifC17Writer", 2, "as quick, <= 2 preemptions, ticker unwound 4 times", "two-chunks", "waited-for-refill"), 4)
	wt.maxPaths = 3000000
	c17t = append(c17t, wt)
	checkRegistry = append(checkRegistry, &checkSpec{
		id: "C17", level: "other", quick: c17, thorough: c17t,
		assume: []string{"strconv.ParseInt on a symbolic header is an uninterpreted function of the string (same string, same result; empty string does not parse; result within int64)", "Customer-Headers header absent (base64+JSON decoding not encoded)", "clock frozen in the relational harness", "time.Ticker contract: a tick may fire at any scheduling point; ticker unwound to 5 ticks"},
		outside: []string{"real ticker jitter, TCP back-pressure, http.Flusher", "streaming select/reset path of sendStreamingInvokeResponse (not yet encoded)", "payloads longer than 2^30 bytes"},
	})
}

func maxprog(h *harnessSpec) *harnessSpec { h.maximalProgress = true; return h }

func init() {
	for _, c := range checkRegistry {
		if c.id == "C11" {
			for _, h := range c.thorough {
				h.maxPaths = 3000000
			}
		}
	}
}

var twoCallers *harnessSpec

// the HTTP front end (cmd/aws-lambda-rie InvokeHandler) against a stub sandbox; sequential, so
// counterexamples are also replayed natively
func frontEnd() []*harnessSpec {
	pkg := modulePath + "/cmd/aws-lambda-rie"
	return []*harnessSpec{
		hs(pkg, "VerifFrontEnd", 0, "front end InvokeHandler with a stub interop server: symbolic event and buffered response, client context {absent, arbitrary bytes (round trip through the standard encoding), documents whose encodings use '+' and '/'}, every outcome of the interop server x response buffered or not x status: event byte for byte, decoded client context, fresh id, ARN, trace; exactly one outcome: the response, OR the timeout text, OR the buffered platform error with a failure status", "success", "timeout", "failure", "done"),
		hs(pkg, "VerifFrontEndTwo", 0, "three consecutive posts (the second times out): fresh ids, own events, own response after a timeout", "done"),
		hs(pkg, "VerifFrontEndBadContext", 0, "an undecodable client context is refused with 500 before anything is invoked", "done"),
	}
}
var orchAssume, orchOutside []string

func init() {
	pkgRC := modulePath + "/lambda/rapidcore"
	twoCallers = maxprog(cclock(hs(pkgRC, "VerifFullTwoCallersTimeout", 2, "FULL stack: the first invocation stalls, times out and is reset; a second caller arrives in each of 5 phases (at once / runtime working / reset begun / old runtime killed / after the answer); invariant at every scheduling point: nobody is admitted while the reset is in progress", "refused", "served-after-reset")))
	twoCallers.noNative = true
	twoCallersFailure := maxprog(cclock(hs(pkgRC, "VerifFullTwoCallersFailure", 2, "FULL stack: the first invocation FAILS (runtime exit) and is reset for that reason; a second caller arrives in each of 5 phases; nobody is admitted while the reset is in progress", "refused", "served-after-reset")))
	twoCallersFailure.noNative = true
	checkRegistry = append(checkRegistry, &checkSpec{
		id: "C10", level: "other",
		quick: []*harnessSpec{
			maxprog(hs(pkgRC, "VerifC10TwoCallers", 2, "two concurrent callers of the real Server.Invoke + a following sequential one; stub sandbox; all schedules with <=2 delays", "refused", "both-served-sequentially")),
			twoCallers,
			twoCallersFailure,
			orch(pkgRC, "VerifC05SlowStateGetter", 1, "a late completion report of a timed-out invocation does not end the next invocation early (which would admit a further caller)", "late-done", "done"),
		},
		thorough: []*harnessSpec{
			maxprog(hs(pkgRC, "VerifC10TwoCallers", 3, "as quick with <=3 delays", "refused", "both-served-sequentially")),
			twoCallers,
			twoCallersFailure,
			orch(pkgRC, "VerifC05SlowStateGetter", 2, "late completion report, <= 2 delays", "late-done", "done"),
		},
		assume:  []string{"stub sandbox: init succeeds, the runtime answers each dispatched invocation", "timers fire only when no thread can run (maximal progress)", "context switches only at synchronisation operations"},
		outside: []string{"a third concurrent caller", "more than two delays on the FULL composition"},
	})
}

func cclock(h *harnessSpec) *harnessSpec { h.concreteClock = true; return h }

// orch builds a harness spec for the ORCH / FULL compositions: concrete logical clock,
// timers fire at quiescence only, delay bound d.
func orch(pkg, name string, d int, desc string, reach ...string) *harnessSpec {
	h := hs(pkg, name, d, desc, reach...)
	h.concreteClock, h.maximalProgress = true, true
	h.noNative = true
	return h
}

// harnesses whose tree at one more delay was not exhausted within seven minutes on 16 cores
var shallowInThorough = map[string]bool{
	"VerifC06RuntimeFaultExt": true, "VerifC06ExtensionFault": true, "VerifC06ExtensionFault2": true,
	"VerifC14Oversize": true, // with one delay the multi-megabyte length queries came back unknown
}

func withD(hs []*harnessSpec, d int, maxPaths int) []*harnessSpec {
	var out []*harnessSpec
	for _, h := range hs {
		c := *h
		// one more delay than the quick tier (at most d), unless the deeper tree was measured not
		// to be exhaustible in reasonable time (shallow)
		c.preemptionBound = h.preemptionBound + 1
		if c.preemptionBound > d || shallowInThorough[h.name] {
			c.preemptionBound = h.preemptionBound
			if c.preemptionBound > d {
				c.preemptionBound = d
			}
		}
		c.maxPaths = maxPaths
		out = append(out, &c)
	}
	return out
}

func init() {
	pkgRC := modulePath + "/lambda/rapidcore"
	pkgRapid := modulePath + "/lambda/rapid"
	orchAssume = []string{
		"compositions: real rapidContext / registration service / flows / rendering / Runtime+Extensions API handler bodies / middleware (and, in the FULL harnesses, the real rapidcore.Server and SandboxContext) executed from go/ssa; fake supervisor, scripted runtime/extension processes and recording writers are harness code",
		"time is a logical clock; timers fire only when no thread can run (maximal progress)",
		"delay-bounded schedules: at most D deviations from the deterministic round-robin non-preemptive scheduler; context switches only at synchronisation operations",
		"identifiers, ARN and trace header are concrete; event and response payloads are symbolic byte sequences of any length up to the limit",
	}
	orchOutside = []string{"real sockets / HTTP framing (requests are well-formed *http.Request values handed to the real chi routers)", "real processes and signals (fake supervisor: Kill and Terminate make the process exit and post its event)", "schedules needing more than D delays", "more extensions / invocations than the harness instantiates"}

	c03 := []*harnessSpec{
		orch(pkgRapid, "VerifC03Init0", 2, "init + first invocation, no extensions", "done"),
		orch(pkgRapid, "VerifC03Init1I", 2, "1 external extension (INVOKE) + a directory entry", "done"),
		orch(pkgRapid, "VerifC03Init2IS", 2, "2 external extensions (INVOKE / SHUTDOWN)", "done"),
		orch(pkgRapid, "VerifC03Init1I1", 2, "1 external + 1 internal extension registering from inside the runtime", "done"),
		orch(pkgRapid, "VerifC03Init0I1", 2, "1 internal extension only", "done"),
		orch(pkgRapid, "VerifC03Held2IS", 1, "any ONE party (runtime, either extension) is held back before register / before its first next until nothing else can happen: meanwhile the runtime is not started (register), initialisation is not complete and nobody is served (next)", "held-register", "held-init", "done"),
		orch(pkgRapid, "VerifC03Held1I1", 1, "held-back party with an internal extension", "held-init", "done"),
		orch(pkgRapid, "VerifC03LateInternal", 2, "an internal extension registers only when the runtime has issued its first next (the window in which registration is being closed): accepted => awaited before initialisation completes, else refused", "late-internal", "done"),
		orch(pkgRC, "VerifFullTimeoutExt", 1, "history: init with an extension, timeout reset, re-initialisation inside the next invocation: in EVERY generation the runtime is started only after every launched extension registered", "scenario-done"),
		orch(pkgRC, "VerifFullExitExt", 1, "history: runtime exit with an extension, reset, re-initialisation", "scenario-done"),
		orch(pkgRC, "VerifC13StaleIdentifier", 0, "after a reset, requests carrying the identifier an external or an internal extension of the PREVIOUS generation was given (next / init error / exit error, before or while the new invocation is with its runtime) are refused with 403 and do not touch the barriers of the new generation", "stale-refused", "done"),
	}
	c03t := append(withD(c03, 2, 2000000), orch(pkgRapid, "VerifC03Init3", 2, "3 external extensions", "done"))
	checkRegistry = append(checkRegistry, &checkSpec{id: "C03", level: "other", quick: c03, thorough: c03t, assume: orchAssume, outside: orchOutside})

	c04 := []*harnessSpec{
		orch(pkgRapid, "VerifC04Invoke2_1", 2, "2 consecutive invocations, 1 extension subscribed to INVOKE+SHUTDOWN", "done"),
		orch(pkgRapid, "VerifC04Invoke2_2", 2, "2 invocations, 2 extensions (one subscribed to INVOKE, one to nothing)", "done"),
		orch(pkgRapid, "VerifC04Invoke2_I1", 2, "2 invocations, 1 external + 1 internal extension", "done"),
		orch(pkgRapid, "VerifC04Held2_2", 1, "any ONE party is held back before returning to next until nothing else can happen: the invocation is not complete while the runtime or an INVOKE subscriber has not asked for next", "held-invoke", "done"),
		orch(pkgRapid, "VerifC04Held2_I1", 1, "held-back party, external + internal extension", "held-invoke", "done"),
		orch(pkgRapid, "VerifC04Held0_I1", 1, "held-back party; the ONLY INVOKE subscriber is an internal extension", "held-invoke", "done"),
		orch(pkgRapid, "VerifC04Held1S_I1", 1, "held-back party; internal INVOKE subscriber + external SHUTDOWN-only extension", "held-invoke", "done"),
		orch(pkgRC, "VerifC13StaleIdentifier", 0, "after a reset, requests carrying the identifier an external or an internal extension of the PREVIOUS generation was given (next / init error / exit error, before or while the new invocation is with its runtime) are refused with 403 and do not touch the barriers of the new generation", "stale-refused", "done"),
	}
	c04t := append(withD(c04, 2, 2000000), orch(pkgRapid, "VerifC04Invoke3_1", 2, "3 invocations, 1 extension", "done"))
	checkRegistry = append(checkRegistry, &checkSpec{id: "C04", level: "other", quick: c04, thorough: c04t, assume: orchAssume, outside: orchOutside})

	srvSeq := func(name string, d int, desc string, reach ...string) *harnessSpec {
		h := maxprog(hs(pkgRC, name, d, desc, reach...))
		h.noNative = true
		return h
	}
	c01 := []*harnessSpec{
		orch(pkgRC, "VerifFullHealthy2Ext", 2, "FULL stack: response then error, 1 extension", "respond", "error", "scenario-done"),
		orch(pkgRC, "VerifFullStale", 2, "FULL stack: stale-id, duplicate and normal submissions", "stale", "double", "scenario-done"),
		orch(pkgRC, "VerifFullRespondExit", 2, "FULL stack: response delivered, then the runtime exits; next invocation", "respond-exit", "scenario-done"),
		srvSeq("VerifC01Sequence2", 2, "Server.Invoke x2 against the stub sandbox, symbolic behaviour per invocation", "respond", "error", "crash", "respond-crash", "wrong-id"),
		orch(pkgRC, "VerifFullTimeoutThenOK", 2, "FULL stack: an invocation following a timed-out one (deadline, body, outcome)", "timeout", "respond", "scenario-done"),
	}
	c01 = append(c01, frontEnd()...)
	c01 = append(c01, orch(pkgRC, "VerifC05SlowStateGetter", 1, "exactly one outcome, and its own: a late completion report of the previous (timed-out) invocation is not taken for the outcome of the next one", "late-done", "done"))
	// the size boundary itself (a response of exactly the limit is returned unchanged) needs the
	// cvc5 portfolio and multi-megabyte length reasoning, which is sensitive to machine load: it is
	// part of C14's quick tier and of C01's THOROUGH tier only
	c01size := orch(pkgRC, "VerifC14Oversize", 0, "FULL stack with symbolic multi-megabyte lengths: a response of at most the limit (the limit included) is delivered intact, a longer one is replaced by the size error, the environment keeps serving", "scenario-done")
	c01size.solver, c01size.altSolver = "cvc5", true
	c01t := append(withD(c01, 2, 3000000), orch(pkgRC, "VerifFullAny2", 2, "FULL stack: any of 7 runtime behaviours for each of 2 invocations", "scenario-done"), twoCallers, c01size)
	checkRegistry = append(checkRegistry, &checkSpec{id: "C01", level: "other", quick: c01, thorough: c01t, assume: orchAssume, outside: append(orchOutside, "InitHandler / main.go of cmd/aws-lambda-rie (environment forwarding, HTTP server)")})

	c02 := []*harnessSpec{
		orch(pkgRC, "VerifC02ServerScript4", 0, "symbolic 4-op script over Server.Reserve / setReplyStream / SendResponse / SendErrorResponse (in-flight, previous or bogus id) / Release against a ghost model", "refused-id", "refused-dup", "accepted"),
		orch(pkgRC, "VerifFullIllegal", 2, "FULL stack: case variant of the id (400), init/error after next (403), error for a stale id (400), then the legal response", "case-variant", "illegal", "scenario-done"),
		orch(pkgRC, "VerifFullStale", 2, "FULL stack: stale-id (400), duplicate (refused) and normal submissions through validator + handlers + Server", "stale", "double", "scenario-done"),
		srvSeq("VerifC01Sequence2", 2, "Server.Invoke x2, stale id then right id", "wrong-id"),
		srvSeq("VerifC02LateResetFailure", 2, "stub sandbox: the goroutine waiting for the outcome of timed-out invocation A learns about the reset only when invocation B has been dispatched: A's platform error is never delivered for B's id, B's response is accepted", "late-reset-failure", "done"),
		orch(pkgRC, "VerifC06ExtensionFault", 1, "accepted only once: after the platform answered the caller with the first fault (extension crash), the function's own late response for the same id is refused (no panic, caller keeps the platform error)", "late-response-after-fault", "done"),
	}
	c02t := append(withD(c02, 2, 3000000), orch(pkgRC, "VerifC02ServerScript5", 0, "as ServerScript4 with 5 operations", "accepted"))
	checkRegistry = append(checkRegistry, &checkSpec{id: "C02", level: "other", quick: c02, thorough: c02t, assume: orchAssume, outside: orchOutside})

	c05 := []*harnessSpec{
		orch(pkgRC, "VerifFullTimeoutThenOK", 2, "FULL stack: runtime stalls, timeout reset, next invocation on fresh processes", "timeout", "respond", "scenario-done"),
		orch(pkgRC, "VerifFullTimeoutExt", 2, "FULL stack: stall with 1 extension (INVOKE+SHUTDOWN)", "timeout", "scenario-done"),
		orch(pkgRC, "VerifFullStallThenStall", 2, "FULL stack: two consecutive timeouts", "timeout", "scenario-done"),
		srvSeq("VerifC01Sequence1", 2, "Server.Invoke against the stub sandbox incl. stall", "timeout"),
		expiry(orch(pkgRC, "VerifC05ExpiryRaceStub", 3, "stub sandbox, the function-timeout timer may fire at ANY point of two healthy invocations (response-versus-expiry): each ends with its response or the timeout outcome and never disturbs the next one", "expiry-won", "response-won")),
		orch(pkgRC, "VerifFullRace2", 2, "FULL stack, timer may fire at any point of two healthy invocations after init", "expiry-won", "respond", "scenario-done"),
		orch(pkgRC, "VerifFullTimeoutExtIgnoreTerm", 1, "FULL stack: a stalled runtime that also ignores SIGTERM, with an extension: it is killed before the timeout answer is given", "timeout", "scenario-done"),
		orch(pkgRC, "VerifC05SlowStateGetter", 2, "stub sandbox: the completion report of invocation A is delayed (slow internal-state getter) past A's timeout reset and B's reservation: the late DONE is discarded, B ends with its own response", "late-done", "done"),
		frontEnd()[0],
		expiry(orch(pkgRC, "VerifFullRaceInit2", 1, "FULL stack, timer may fire at any point INCLUDING the lazy initialisation: a timed-out invocation is never dispatched behind its reset (the next runtime gets the next event)", "expiry-before-dispatch", "respond", "scenario-done")),
	}
	checkRegistry = append(checkRegistry, &checkSpec{id: "C05", level: "other", quick: c05, thorough: withD(c05, 2, 3000000), assume: orchAssume, outside: append(orchOutside, "wall-clock bound of the answer (logical time only)", "stalls during extension registration / runtime init (see C03 harness for the barrier)")})

	c06 := []*harnessSpec{
		orch(pkgRC, "VerifFullExitThenOK", 2, "FULL stack: runtime exits after receiving the invocation; next invocation recovers", "exit", "respond", "scenario-done"),
		orch(pkgRC, "VerifFullExitExt", 2, "FULL stack: runtime exit with 1 extension", "exit", "scenario-done"),
		orch(pkgRC, "VerifFullRespondExit", 2, "FULL stack: exit after the response was delivered", "respond-exit", "scenario-done"),
		orch(pkgRC, "VerifFullExitThenStall", 2, "FULL stack: exit, then a stall in the next generation", "exit", "timeout", "scenario-done"),
		orch(pkgRC, "VerifC06RuntimeFault", 1, "runtime fault at each of 5 protocol steps {during init, init/error report, after receiving the invocation, after the response, idle in next} x exit {0, 1, SIGSEGV}; 3 invocations: failure status (never the timeout), body = delivered response / own init-error payload / nothing (unreported init fault) / JSON naming Runtime.ExitError; recovery", "body-delivered-response", "body-init-error-payload", "body-none", "body-first-fault", "who-0-point-4-kind-2", "done"),
		orch(pkgRC, "VerifC06RuntimeFaultExt", 1, "as above with one healthy extension", "body-first-fault", "done"),
		orch(pkgRC, "VerifC06ExtensionFault", 1, "extension fault at each of 6 steps {before register, after register, after first event, init/error report, exit/error report, idle between two invocations} x exit {0, 1, signal}, function finished or still running when it happens: failure status, body = delivered response / nothing / JSON naming Extension.Crash (Extension.* after a report)", "body-delivered-response", "body-none", "body-first-fault", "who-1-point-4-kind-2", "done"),
		orch(pkgRC, "VerifC06ExtensionFault2", 1, "extension fault with a second, healthy extension", "body-first-fault", "done"),
		orch(pkgRC, "VerifC08SettledExt", 0, "the JSON error names the first fault of ITS generation: a report recorded during the previous reset does not mask it (differential)", "prefix-6", "done"),
	}
	checkRegistry = append(checkRegistry, &checkSpec{id: "C06", level: "other", quick: c06, thorough: withD(c06, 2, 3000000), assume: orchAssume, outside: append(orchOutside, "launch failures of extensions (C03/C09 harnesses cover the barrier and shutdown side)", "faults in later generations or of two processes at once", "the exact errorType after an extension's own exit/error report (any Extension.* accepted)")})
}

func init() {
	pkgRC := modulePath + "/lambda/rapidcore"
	pkgRapid := modulePath + "/lambda/rapid"
	c09 := []*harnessSpec{
		orch(pkgRapid, "VerifC09Reset0", 2, "timeout reset with no extension: runtime killed at once", "returned", "no-extensions"),
		orch(pkgRapid, "VerifC09Reset1", 2, "timeout reset, 1 extension with symbolic behaviour {subscribed+exits 0, subscribed+ignores, unsubscribed, failed to launch, subscribed+exits 1} x runtime {exits on TERM, ignores TERM}", "returned", "with-extensions"),
		orch(pkgRapid, "VerifC09Shutdown1", 1, "explicit shutdown, 1 extension, same behaviour choices", "returned", "with-extensions"),
		orch(pkgRapid, "VerifC09Reset1Failure", 1, "failure reset, 1 extension", "returned"),
		orch(pkgRapid, "VerifC09Reset2", 1, "timeout reset, 2 extensions: all 5x5 behaviour pairs x 2 runtime behaviours", "returned", "with-extensions"),
		orch(pkgRapid, "VerifC09Reset0Internal", 1, "the only registered extension is an INTERNAL one: it counts as an extension (runtime gets TERM first)", "with-extensions", "returned"),
		orch(pkgRC, "VerifFullStallThenStall", 1, "the choreography also works for a LATER generation: timeout reset, re-initialisation, second timeout reset (everything reaped, no wedge)", "timeout", "scenario-done"),
		orch(pkgRapid, "VerifC09AfterUnreaped", 1, "a reset that cannot reap a process (its exit is never reported) returns after the fixed 2 s grace; a following reset and shutdown return at once", "gave-up", "second-reset-returned", "done"),
	}
	c09t := append(withD(c09, 2, 3000000), orch(pkgRapid, "VerifC09Shutdown2", 2, "explicit shutdown, 2 extensions", "returned"))
	checkRegistry = append(checkRegistry, &checkSpec{id: "C09", level: "other", quick: c09, thorough: c09t,
		assume: []string{"ORCH composition with the real shutdownContext.shutdown / shutdownRuntime / shutdownAgents / clearExitedChannel / handleProcessExit / watchEvents / ShutdownRenderer from go/ssa", "fake supervisor: Terminate makes a cooperative process exit, Kill makes it exit unless the request deadline has already passed (contract of the local supervisor); every exit posts one event", "logical clock; timers (deadlines, 2 s grace) fire only when no thread can run", "delay-bounded schedules"},
		outside: []string{"real signal delivery and reaping (C19)", "the 30% share is checked with concrete durations (2000 ms allowance), not symbolically", "extensions that are subscribed but not polling when the operation begins", "upper bound deadline + 9 s + 2 s (logical time only)"}})

	c15 := []*harnessSpec{
		orch(pkgRC, "VerifFullInitCrash", 2, "runtime exits during the first init; event grammar + truthfulness monitor over the whole trace", "scenario-done"),
		orch(pkgRC, "VerifFullInlineInitCrash", 2, "timeout, then the re-initialisation's runtime exits; exactly one invoke-start per dispatched invocation", "scenario-done"),
		orch(pkgRC, "VerifFullInitError", 2, "runtime reports init/error", "scenario-done"),
		orch(pkgRC, "VerifFullHealthy2Ext", 1, "healthy invocations with an extension", "scenario-done"),
		orch(pkgRC, "VerifFullTimeoutExt", 1, "timeout with an extension", "scenario-done"),
		orch(pkgRC, "VerifFullExitExt", 1, "runtime exit with an extension", "scenario-done"),
		orch(pkgRapid, "VerifC03Init1I1", 1, "init with external + internal extension, then an invocation", "done"),
		orch(pkgRC, "VerifFullRespondExit", 2, "the runtime posts its response and exits instead of polling again: no success runtime-done for that invocation", "respond-exit", "scenario-done"),
		orch(pkgRC, "VerifC06RuntimeFault", 1, "runtime faults at every protocol step incl. while idle between invocations: the event monitor over all these traces", "done"),
		orch(pkgRapid, "VerifC15ResetRuntimeDone", 1, "orchestrator level with the reset reasons failure/timeout: healthy A, B's runtime exits + failure reset, C's inline initialisation fails + failure reset, healthy D: every runtime-done (also those emitted by a reset) carries the id of the invocation it follows", "done"),
		orch(pkgRC, "VerifC08SettledExt", 0, "error statuses carry the type of the first fault of THEIR generation: after a reset during which an extension reported exit/error, a runtime exit of the next generation is reported as Runtime.ExitError (differential against a fresh instance)", "prefix-6", "done"),
	}
	checkRegistry = append(checkRegistry, &checkSpec{id: "C15", level: "other", quick: c15, thorough: withD(c15, 2, 3000000),
		assume: []string{"recording EventsAPI injected into the real rapidContext; the monitor (harness code) checks nesting, counts, phase tags and truthfulness of success statuses against the ghost log of what the scripted parties really did"},
		outside: []string{"log formatting / standalone telemetry rendering", "the exact error type of every failure (only non-empty for error statuses, Runtime.ExitError checked in C06)", "restore events"}})
}

func init() {
	pkgRC := modulePath + "/lambda/rapidcore"
	pkgRapid := modulePath + "/lambda/rapid"
	c12 := []*harnessSpec{
		orch(pkgRC, "VerifC12Script4", 0, "FULL stack: the first runtime executes every script of 4 calls over {next, response(in-flight), response(stale), error(in-flight), init/error, non-existing call (unknown route 404 / wrong method 405 / restore call outside snapshot mode 404)} sent through the real chi router, against a reference automaton, while two invocations arrive", "next-new", "next-same", "accepted", "refused-state", "init-error", "init-error-refused", "script-done"),
		orch(pkgRC, "VerifFullIllegal", 2, "FULL stack: illegal calls interleaved with legal ones, schedules with <=2 delays", "case-variant", "illegal", "scenario-done"),
		orch(pkgRC, "VerifFullTimeoutThenOK", 1, "the lifecycle starts afresh in a later generation: after a timeout reset the new runtime's first next is legal, blocks and delivers the invocation", "timeout", "respond", "scenario-done"),
		orch(pkgRapid, "VerifC18Restore", 1, "snapshot mode: restore/next, restore/error, legacy init/error, stalled hook, no restore poll, exit (routes exist only in snapshot mode is not checked)", "hook-ok", "hook-error", "hook-timeout", "no-restore-poll", "exit"),
	}
	c12t := []*harnessSpec{
		orch(pkgRC, "VerifC12Script5", 0, "scripts of 5 calls", "script-done"),
		orch(pkgRC, "VerifC12Script3", 1, "scripts of 3 calls, schedules with <=1 delay", "script-done"),
		orch(pkgRC, "VerifFullIllegal", 2, "illegal calls, <=2 delays", "scenario-done"),
		orch(pkgRC, "VerifFullTimeoutThenOK", 2, "later generation, <=2 delays", "scenario-done"),
		orch(pkgRapid, "VerifC18Restore", 2, "snapshot mode", "hook-ok"),
	}
	checkRegistry = append(checkRegistry, &checkSpec{id: "C12", level: "other", quick: c12, thorough: c12t,
		assume:  []string{"FULL composition (real Server, orchestration, validator, handlers, Runtime state objects) from go/ssa; the reference automaton is harness code written from the property text", "where the text is silent the reference accepts the code's answer (none needed for the Runtime API)"},
		outside: []string{"scripts longer than 5 calls"}})

	c13 := []*harnessSpec{
		orch(pkgRC, "VerifC13External3", 0, "FULL stack: an external extension executes every script of 3 calls over {register(INVOKE), register(bad event), register(SHUTDOWN), next, init/error, exit/error, unknown id, missing/malformed id} against a reference automaton", "registered", "event", "init-error", "exit-error", "script-done"),
		orch(pkgRC, "VerifC13Internal3", 0, "the same for an internal extension registering from inside the runtime", "registered", "script-done"),
		orch(modulePath+"/lambda/core", "VerifC13Limit", 0, "registration service: k = 0..10 external extensions, then registrations chosen among {fresh internal name, name of an external, repeated internal name}: at most ten extensions, ErrTooManyExtensions for the eleventh, name collisions across kinds refused, refused registrations change no count", "limit", "collision", "duplicate", "done"),
orch(pkgRC, "VerifC13StaleIdentifier", 1, "after a reset, requests carrying the identifier an external or an internal extension of the PREVIOUS generation was given (next / init error / exit error, before or while the new invocation is with its runtime) are refused with 403 and do not touch the barriers of the new generation", "stale-refused", "done"),
		orch(pkgRC, "VerifC13ExitWhileParkedInternal", 1, "the same for an internal extension", "exit-reported", "parked-next-answered"),
		orch(pkgRC, "VerifC13ExitWhileParked", 1, "exit/error reported while another request of the extension is parked in next: the parked next is refused when released", "exit-reported", "parked-next-answered"),
	}
	c13t := []*harnessSpec{
		orch(pkgRC, "VerifC13External4", 0, "scripts of 4 calls (external)", "script-done"),
		orch(pkgRC, "VerifC13Internal4", 0, "scripts of 4 calls (internal)", "script-done"),
		orch(pkgRC, "VerifC13TwoExternal2", 0, "two external extensions, each executing every script of 2 calls, interleaved", "script-done"),
		orch(pkgRC, "VerifC13ExitWhileParked", 2, "exit/error while parked", "parked-next-answered"),
	}
	checkRegistry = append(checkRegistry, &checkSpec{id: "C13", level: "other", quick: c13, thorough: c13t,
		assume:  []string{"FULL composition from go/ssa; reference automaton is harness code", "a repeated identical init/error (resp. exit/error) report in its own final state is answered 202 by the code and changes nothing: the property text is silent, the reference accepts 202 or 403"},
		outside: []string{"the ten-extension limit at the launch loop for more than ten extension files", "the accountId feature header", "scripts longer than 4 calls", "JSON body parsing beyond the concrete bodies used"}})

	c18 := []*harnessSpec{
		orch(pkgRapid, "VerifC18Restore", 1, "snapshot mode, symbolic runtime behaviour in {hook ok, restore/error(type), init/error(type), hook stalls, no restore poll, exit}, symbolic error type and presented token", "hook-ok", "hook-error", "hook-timeout", "no-restore-poll", "exit"),
	}
	checkRegistry = append(checkRegistry, &checkSpec{id: "C18", level: "other", quick: c18, thorough: withD(c18, 3, 1000000),
		assume:  []string{"ORCH composition in init-caching mode with the real handleRestore / AwaitRuntimeReadyWithDeadline / credentials service / credentials handler; hook timeout as a logical timer firing at quiescence"},
		outside: []string{"wall-clock bound of the timeout", "orders in which the restore request arrives before the runtime parked (init completes first here)"}})
}

func init() {
	pkgRC := modulePath + "/lambda/rapidcore"
	c14h := orch(pkgRC, "VerifC14Oversize", 0, "FULL stack: a response of symbolic length > 6 MiB + 100 (413, Function.ResponseSizeTooLarge with both sizes, nothing of the payload delivered, no reset), then a response of symbolic length <= the limit on the same environment, then an event of symbolic length > the limit polled twice (cut at the limit both times)", "scenario-done")
	c14h.solver, c14h.altSolver = "cvc5", true
	c14t := orch(pkgRC, "VerifC14Oversize", 0, "as quick (with one delay the length queries over multi-megabyte strings came back unknown from both solvers under load: not registered)", "scenario-done")
	c14t.solver, c14t.altSolver = "cvc5", true
	checkRegistry = append(checkRegistry, &checkSpec{id: "C14", level: "other", quick: []*harnessSpec{c14h}, thorough: []*harnessSpec{c14t},
		assume:  []string{"FULL composition from go/ssa; payloads are symbolic byte sequences whose lengths are only constrained to be above / at most the limit (multi-megabyte lengths; cvc5 decides the length reasoning, z3 the integer formatting)", "io.ReadAll / LimitReader / bytes.Buffer contracts of gosmt"},
		outside: []string{"positions other than first/second/third in a sequence", "transport chunking"}})

	pkgEnv := modulePath + "/lambda/rapidcore/env"
	checkRegistry = append(checkRegistry, &checkSpec{id: "C16", level: "other",
		quick: []*harnessSpec{
			strh(hs(pkgEnv, "VerifC16Env", 0, "NewEnvironment / StoreRuntimeAPIEnvironmentVariable / SetHandler / StoreEnvironmentVariablesFromInit / RuntimeExecEnv / AgentExecEnv with a symbolic customer key (may equal any reserved key) and symbolic values, handler override, credentials, function name/version, runtime API address", "customer-unshadowed", "customer-shadowed")),
			strh(hs(pkgEnv, "VerifC16Split", 0, "SplitEnvironmentVariable(k+\"=\"+v) for symbolic k (without '=') and v (anything)")),
		},
		assume:  []string{"maps with symbolic keys are case-split on key equality by the engine", "os.LookupEnv / os.Environ stubbed by the harness (TZ, AWS_EXECUTION_ENV concrete, AWS_XRAY_DAEMON_ADDRESS symbolic presence)"},
		outside: []string{"that the stored Runtime API address is the one the API server really listens on (rapid.Start formats it before Listen; with port 0 they differ) -- not encoded", "init-caching credential mode (covered by C18's harness)", "the kernel's environment passing"}})
}

func init() {
	pkgSup := modulePath + "/lambda/supervisor"
	sup := func(name string, d int, desc string, reach ...string) *harnessSpec {
		return orch(pkgSup, name, d, desc, reach...)
	}
	c19 := []*harnessSpec{
		sup("VerifC19Status1", 2, "one process, SYMBOLIC natural exit code (0..255) / terminating signal (1..31) / TERM-handler exit code, 3 reactions to TERM, one request out of {Kill, Kill past deadline, Kill unknown, Terminate, Terminate unknown}: the event carries the true status (decoded by the real syscall.WaitStatus code)", "event-exit-status", "event-signal", "terminated", "done"),
		sup("VerifC19One2", 2, "one process: 3 TERM reactions x SIGKILL-resistant or not x forks a child into its group or not x {runs on, exits 0/1/200, dies of a signal}, 2 requests, natural exit racing with the requests", "kill-ok", "kill-timeout", "kill-already-exited", "kill-past-deadline", "kill-unknown", "kill-group", "terminate", "terminate-does-not-wait", "done"),
		sup("VerifC19Two2", 1, "two processes at once (4 profiles each), 2 requests on either", "kill-ok", "kill-group", "terminate", "done"),
		sup("VerifC19EventsAfterContextDone", 2, "processes started with request contexts that are cancelled at once, exiting while nobody reads the events channel: exactly one event per process", "done"),
		sup("VerifC19Concurrent", 2, "concurrent requests: while a Kill of a SIGKILL-resistant process is blocked until its deadline, Terminate / Kill of another process complete at once", "terminate-while-kill-blocked", "kill-while-kill-blocked", "done"),
	}
	c19t := []*harnessSpec{
		sup("VerifC19Status2", 2, "as Status1 with 2 requests", "event-exit-status", "event-signal", "done"),
		sup("VerifC19One3", 2, "as One2 with 3 requests", "kill-ok", "kill-group", "done"),
		sup("VerifC19Two2", 2, "two processes, 2 requests, <= 2 delays", "done"),
		sup("VerifC19Two3", 1, "two processes, 3 requests", "done"),
	}
	for _, h := range c19t {
		h.maxPaths = 3000000
	}
	checkRegistry = append(checkRegistry, &checkSpec{id: "C19", level: "other", quick: c19, thorough: c19t,
		assume: []string{"the real LocalSupervisor (Exec incl. its Wait goroutine and status decoding, kill, Kill, Terminate) and the real syscall.WaitStatus methods are executed from go/ssa",
			"the operating system is a harness model that replaces exactly exec.Command, (*exec.Cmd).Start/Wait, (*os.ProcessState).Sys, syscall.Getpgid, syscall.Kill: Linux wait-status encoding (exit n = n<<8, signal s = s), group-directed signals reach every unreaped member of the group, SIGKILL ends a process unless it is modelled as resisting (uninterruptible) for the whole run, a process started without Setpgid inherits the emulator's own group",
			"'already exited' means the supervisor has observed the exit (termination channel closed); while a natural exit races with a request, either documented answer is accepted",
			"logical clock; Kill's deadline timer fires at quiescence"},
		outside: []string{"the real kernel (fork/exec failures, pid reuse, zombies of grand-children, signals other than TERM/KILL sent by the supervisor)", "Stop / Freeze / Thaw", "more than 2 processes or 3 requests", "counterexamples are confirmed by pinned re-execution in the engine only (a native replay would need real processes)"}})
}

func init() {
	pkgRC := modulePath + "/lambda/rapidcore"
	c07 := []*harnessSpec{
		orch(pkgRC, "VerifC07Runtime2", 1, "FULL stack, 3 invocations: the first runtime executes EVERY script of 2 calls over {next, response(in-flight), response(bogus id), error, init/error, exit, stall, restore/next, restore/error} and then behaves; later generations healthy", "rt-exit", "rt-stall", "timeout", "runtime-body", "platform-body", "faulty-generations-gone", "done"),
		orch(pkgRC, "VerifC07Ext2", 1, "FULL stack, 3 invocations: the first external extension executes EVERY script of 2 calls over {register, next, init/error, exit/error, exit process, stall} and then behaves; runtime healthy", "ext-exit", "ext-stall", "runtime-body", "done"),
		orch(pkgRC, "VerifC07Both11", 1, "runtime and extension each make one arbitrary call first", "done"),
		orch(pkgRC, "VerifC07Both22", 0, "runtime and extension scripts of 2 calls each (base schedule)", "done"),
		orch(pkgRC, "VerifC07Runtime2ThenStall", 1, "two consecutive faulty generations: script of 2 calls, then a runtime that stalls, then healthy ones; 4 invocations", "faulty-generations-gone", "done"),
		orch(pkgRC, "VerifC07Runtime2ThenExit", 0, "as above, the second generation exits", "faulty-generations-gone", "done"),
		orch(pkgRC, "VerifFullStallThenStall", 1, "two consecutive timeouts (late exit notifications of the old generation)", "timeout", "scenario-done"),
		orch(pkgRC, "VerifC05SlowStateGetter", 1, "a completion report delayed past the timeout reset and the next reservation does not give the next caller an empty success", "late-done", "done"),
		orch(pkgRC, "VerifC13StaleIdentifier", 0, "after a reset, requests carrying the identifier an external or an internal extension of the PREVIOUS generation was given are refused with 403; an internal extension registers again under its name in the new generation; the new invocation completes", "stale-refused", "done"),
	}
	c07t := []*harnessSpec{
		orch(pkgRC, "VerifC07Runtime3", 1, "runtime scripts of 3 calls", "done"),
		orch(pkgRC, "VerifC07Ext3", 1, "extension scripts of 3 calls", "done"),
		orch(pkgRC, "VerifC07Both11", 1, "1+1 calls, <= 1 delay", "done"),
		orch(pkgRC, "VerifC07Ext2", 1, "extension scripts of 2 calls", "done"),
		orch(pkgRC, "VerifC07Both22", 0, "2+2 calls, base schedule", "done"),
		orch(pkgRC, "VerifC07Runtime2ThenStall", 1, "two faulty generations", "done"),
		orch(pkgRC, "VerifC07Runtime2ThenExit", 1, "two faulty generations", "done"),
		orch(pkgRC, "VerifFullStallThenStall", 2, "two consecutive timeouts, <= 2 delays", "scenario-done"),
		orch(pkgRC, "VerifC05SlowStateGetter", 2, "late completion report, <= 2 delays", "done"),
		orch(pkgRC, "VerifC13StaleIdentifier", 1, "stale identifiers, <= 1 delay", "done"),
		expiry(orch(pkgRC, "VerifFullRaceInit2", 2, "expiry at any point including init", "scenario-done")),
	}
	for _, h := range c07t {
		h.maxPaths = 1500000
	}
	checkRegistry = append(checkRegistry, &checkSpec{id: "C07", level: "other", quick: c07, thorough: c07t,
		assume: append([]string{"panics of the code under test (log.Panic included) and deadlocks at quiescence are violations reported by the engine on every explored path", "'behaves again' = the faulty generation's processes are gone; the bound on the outcome is checked in logical time (function timeout 3000 ms + reset allowance 2000 ms)", "bodies: constant distinct payloads per call (byte-exactness for arbitrary content is C01's obligation)"}, orchAssume...),
		outside: append([]string{"scripts longer than 3 calls, more than one extension, misuse in more than the first generation (the second generation only stalls or exits)", "wall-clock time, goroutine leaks, memory", "HTTP-level misuse (malformed requests, slow bodies): handlers are called with well-formed requests"}, orchOutside...)})
}

func init() {
	pkgRC := modulePath + "/lambda/rapidcore"
	c08 := []*harnessSpec{
		orch(pkgRC, "VerifC08Settled", 1, "differential, no extension: 6 prefixes {healthy+reset, runtime exit, timeout, init error then exit, response-then-exit + reset, init crash then timeout} x 4 suffixes {healthy, exit, stall, function error; then healthy}: per-generation state after the reset and all suffix observations equal those of a fresh instance that was reset at once", "prefix-0", "prefix-1", "prefix-2", "prefix-3", "prefix-4", "prefix-5", "suffix-0", "suffix-1", "suffix-2", "suffix-3", "done"),
		orch(pkgRC, "VerifC08SettledExt", 0, "as above with one extension subscribed to INVOKE+SHUTDOWN (base schedule); 7th prefix: timeout during which the extension answers SHUTDOWN with an exit/error report; during the suffix a request carrying the OLD generation's extension identifier (next or exit/error) must be refused with 403", "prefix-3", "prefix-6", "stale-identifier", "suffix-1", "done"),
		orch(pkgRC, "VerifC08Late", 1, "the exit notification of the first SIGKILLed process of the prefix is handled late: when the next invocation has begun / has reached its runtime / has ended (3 phases) x 6 prefixes x 4 suffixes; caller outcomes and platform events equal those of the reference", "prefix-2", "suffix-2", "done"),
		orch(pkgRC, "VerifC08LateExt", 0, "late notification, one extension (base schedule)", "done"),
		orch(pkgRC, "VerifC08InternalFirstFresh", 1, "reference: on a fresh instance an internal extension may ask for its first event before the runtime's first next", "internal-first", "done"),
		orch(pkgRC, "VerifC08InternalFirstAfterReset", 1, "a party that exists only in a LATER generation: after a generation without extensions and a reset the same initialisation completes (barrier counts do not survive the reset)", "internal-first", "done"),
orch(pkgRC, "VerifC13StaleIdentifier", 0, "after a reset, requests carrying the identifier an external or an internal extension of the PREVIOUS generation was given are refused with 403; an internal extension registers again under its name in the new generation; the new invocation completes", "stale-refused", "done"),
		orch(pkgRC, "VerifC05SlowStateGetter", 1, "interop-server leftover: the DONE of an invocation of the old generation posted after the reset and the next reservation is discarded", "late-done", "done"),
	}
	c08t := []*harnessSpec{
		orch(pkgRC, "VerifC08Settled", 1, "<= 1 delay (two delays: 53k paths in seven minutes, not exhausted)", "done"),
		orch(pkgRC, "VerifC08SettledExt", 1, "one extension, <= 1 delay", "done"),
		orch(pkgRC, "VerifC08Late", 1, "late notification, <= 1 delay", "done"),
		orch(pkgRC, "VerifC08LateExt", 1, "late notification, one extension, <= 1 delay", "done"),
		orch(pkgRC, "VerifC08InternalFirstFresh", 2, "<= 2 delays", "done"),
		orch(pkgRC, "VerifC08InternalFirstAfterReset", 2, "<= 2 delays", "done"),
		orch(pkgRC, "VerifC13StaleIdentifier", 1, "stale identifiers, <= 1 delay", "done"),
		orch(pkgRC, "VerifC05SlowStateGetter", 2, "late completion report, <= 2 delays", "done"),
	}
	for _, h := range c08t {
		h.maxPaths = 1500000
	}
	checkRegistry = append(checkRegistry, &checkSpec{id: "C08", level: "other", quick: c08, thorough: c08t,
		assume: append([]string{"reference = a freshly started instance that is reset at once (a fresh instance without reset runs its first init in phase 'init' instead of 'invoke', which is not a trace of anything)", "observations: caller outcome (error value, number of writes, own body or platform error type), platform event sequence, runtime / extension views, supervisor requests per process; generation numbers removed, request ids replaced by order of appearance", "state compared after the reset: registrations, agents, barrier arrivals/cancellation/errors, first fatal error, runtime release, error trace data, initDone, shuttingDown, cached init error response, reservation, pending DONE; NOT compared: Server.invoker (overwritten by every Reserve before use), Server.runtimeState (read by no decision), agentsAwaitingExit (keyed by per-generation names), gate counts (set at every init)", "late notification = the fake supervisor posts the exit event of a killed process only when a chosen phase of the next invocation is reached"}, orchAssume...),
		outside: append([]string{"prefixes longer than one invocation (two for init failures), suffixes longer than two", "notifications arriving between the end of shutdown() and the generation increment (no synchronisation operation in between: not a scheduling point of the engine)", "telemetry/logs subscription state (not enabled in the emulator)"}, orchOutside...)})
}

// expiry: timers are not restricted to quiescence (the harness switches them with verifRaceTimers)
func expiry(h *harnessSpec) *harnessSpec { h.maximalProgress = false; return h }

func findCheck(id string) *checkSpec {
	for _, c := range checkRegistry {
		if c.id == id {
			return c
		}
	}
	return nil
}
