package main

// SMT-LIB2 term construction and a long-lived solver process (z3 -in).
// Terms are plain strings; sorts are tracked on the Go side.

import (
	"bufio"
	"fmt"
	"io"
	"os/exec"
	"strconv"
	"strings"
	"sync/atomic"
	"time"
)

type Sort uint8

const (
	SBool Sort = iota
	SInt
	SStr   // Go string
	SBytes // Go []byte with symbolic length; same SMT sort as SStr
	SFP    // float64
)

func (s Sort) smt() string {
	switch s {
	case SBool:
		return "Bool"
	case SInt:
		return "Int"
	case SStr, SBytes:
		return "String"
	case SFP:
		return "(_ FloatingPoint 11 53)"
	}
	panic("sort")
}

// prelude defines the helper functions used by the encoding.
const smtPrelude = `
(set-option :produce-models true)
(define-fun wrap_s64 ((x Int)) Int (- (mod (+ x 9223372036854775808) 18446744073709551616) 9223372036854775808))
(define-fun wrap_s32 ((x Int)) Int (- (mod (+ x 2147483648) 4294967296) 2147483648))
(define-fun wrap_s16 ((x Int)) Int (- (mod (+ x 32768) 65536) 32768))
(define-fun wrap_s8 ((x Int)) Int (- (mod (+ x 128) 256) 128))
(define-fun wrap_u64 ((x Int)) Int (mod x 18446744073709551616))
(define-fun wrap_u32 ((x Int)) Int (mod x 4294967296))
(define-fun wrap_u16 ((x Int)) Int (mod x 65536))
(define-fun wrap_u8 ((x Int)) Int (mod x 256))
(define-fun go_quo ((x Int) (y Int)) Int (ite (>= x 0) (ite (> y 0) (div x y) (- (div x (- y)))) (ite (> y 0) (- (div (- x) y)) (div (- x) (- y)))))
(define-fun go_rem ((x Int) (y Int)) Int (- x (* y (go_quo x y))))
(declare-fun json_esc (String) String)
(declare-fun json_valid (String) Bool)
`

type solverStats struct {
	queries  int64
	sat      int64
	unsat    int64
	unknown  int64
	solverNs int64
}

var gstats solverStats

type Solver struct {
	bin    string
	args   []string
	cmd    *exec.Cmd
	in     io.WriteCloser
	out    *bufio.Reader
	depth  int
	log    io.Writer
	dead   bool
	tmoMs  int
}

func NewSolver(bin string, tmoMs int) *Solver {
	s := &Solver{bin: bin, tmoMs: tmoMs}
	switch {
	case strings.Contains(bin, "cvc5"):
		s.args = []string{"--incremental", "--lang=smt2", "--strings-exp", fmt.Sprintf("--tlimit-per=%d", tmoMs)}
	default:
		s.args = []string{"-in", fmt.Sprintf("-t:%d", tmoMs)}
	}
	s.start()
	return s
}

func (s *Solver) start() {
	s.cmd = exec.Command(s.bin, s.args...)
	var err error
	s.in, err = s.cmd.StdinPipe()
	if err != nil {
		panic(err)
	}
	op, err := s.cmd.StdoutPipe()
	if err != nil {
		panic(err)
	}
	s.cmd.Stderr = nil
	if err := s.cmd.Start(); err != nil {
		panic(err)
	}
	s.out = bufio.NewReaderSize(op, 1<<16)
	s.depth = 0
	s.dead = false
	if strings.Contains(s.bin, "cvc5") {
		s.send("(set-logic ALL)")
	}
	s.send(smtPrelude)
}

func (s *Solver) Close() {
	if s.cmd != nil && s.cmd.Process != nil {
		s.in.Close()
		s.cmd.Process.Kill()
		s.cmd.Wait()
	}
}

func (s *Solver) send(str string) {
	if s.log != nil {
		io.WriteString(s.log, str+"\n")
	}
	if _, err := io.WriteString(s.in, str+"\n"); err != nil {
		s.dead = true
	}
}

func (s *Solver) Push() { s.send("(push 1)"); s.depth++ }
func (s *Solver) Pop()  { s.send("(pop 1)"); s.depth-- }

// Reset pops everything asserted since start.
func (s *Solver) ResetTo(depth int) {
	for s.depth > depth {
		s.Pop()
	}
}

func (s *Solver) Declare(name string, sort Sort) {
	s.send(fmt.Sprintf("(declare-const %s %s)", name, sort.smt()))
}

func (s *Solver) Assert(t string) {
	s.send("(assert " + t + ")")
}

type SatResult int

const (
	Unsat SatResult = iota
	Sat
	Unknown
)

func (r SatResult) String() string { return [...]string{"unsat", "sat", "unknown"}[r] }

func (s *Solver) readLine() (string, error) {
	line, err := s.out.ReadString('\n')
	return strings.TrimSpace(line), err
}

// Check runs check-sat on the current assertion stack.
func (s *Solver) Check() SatResult {
	t0 := time.Now()
	s.send("(check-sat)")
	res := Unknown
	for {
		line, err := s.readLine()
		if err != nil {
			s.dead = true
			break
		}
		if line == "" {
			continue
		}
		if line == "sat" {
			res = Sat
			break
		}
		if line == "unsat" {
			res = Unsat
			break
		}
		if line == "unknown" || line == "timeout" {
			res = Unknown
			break
		}
		if strings.HasPrefix(line, "(error") {
			// any error makes the answer inconclusive; drain the verdict that follows
			if s.log != nil {
				io.WriteString(s.log, "; SOLVER ERROR: "+line+"\n")
			}
			lastSolverError.Store(line)
			for {
				l2, err := s.readLine()
				if err != nil || l2 == "sat" || l2 == "unsat" || l2 == "unknown" {
					break
				}
			}
			res = Unknown
			break
		}
	}
	atomic.AddInt64(&gstats.queries, 1)
	atomic.AddInt64(&gstats.solverNs, int64(time.Since(t0)))
	switch res {
	case Sat:
		atomic.AddInt64(&gstats.sat, 1)
	case Unsat:
		atomic.AddInt64(&gstats.unsat, 1)
	default:
		atomic.AddInt64(&gstats.unknown, 1)
	}
	return res
}

var lastSolverError atomic.Value

// CheckWith checks the stack plus an extra assertion, leaving the stack unchanged.
func (s *Solver) CheckWith(t string) SatResult {
	s.Push()
	s.Assert(t)
	r := s.Check()
	s.Pop()
	return r
}

// GetValues evaluates the named constants in the current model (after a sat).
func (s *Solver) GetValues(names []string) map[string]string {
	res := map[string]string{}
	for _, n := range names {
		s.send("(get-value (" + n + "))")
		txt := s.readSexp()
		// ((name value))
		txt = strings.TrimSpace(txt)
		if strings.HasPrefix(txt, "(error") {
			continue
		}
		txt = strings.TrimPrefix(txt, "((")
		txt = strings.TrimSuffix(txt, "))")
		i := strings.IndexAny(txt, " \n")
		if i < 0 {
			continue
		}
		res[n] = strings.TrimSpace(txt[i+1:])
	}
	return res
}

// readSexp reads one balanced s-expression from the solver output.
func (s *Solver) readSexp() string {
	var sb strings.Builder
	depth := 0
	started := false
	inStr := false
	for {
		b, err := s.out.ReadByte()
		if err != nil {
			s.dead = true
			return sb.String()
		}
		if !started {
			if b == ' ' || b == '\n' || b == '\r' || b == '\t' {
				continue
			}
			started = true
		}
		sb.WriteByte(b)
		if inStr {
			if b == '"' {
				inStr = false
			}
			continue
		}
		switch b {
		case '"':
			inStr = true
		case '(':
			depth++
		case ')':
			depth--
			if depth == 0 {
				// consume rest of line
				s.out.ReadString('\n')
				return sb.String()
			}
		case '\n':
			if depth == 0 {
				return sb.String()
			}
		}
	}
}

// ---------------------------------------------------------------------------
// term helpers

func smtInt(v int64) string {
	if v < 0 {
		if v == -9223372036854775808 {
			return "(- 9223372036854775808)"
		}
		return "(- " + strconv.FormatInt(-v, 10) + ")"
	}
	return strconv.FormatInt(v, 10)
}

func smtUint(v uint64) string { return strconv.FormatUint(v, 10) }

func smtBool(b bool) string {
	if b {
		return "true"
	}
	return "false"
}

// smtStr renders a Go byte string as an SMT-LIB string literal (each byte one char).
func smtStr(s string) string {
	var sb strings.Builder
	sb.WriteByte('"')
	for i := 0; i < len(s); i++ {
		c := s[i]
		switch {
		case c == '"':
			sb.WriteString(`""`)
		case c == '\\':
			sb.WriteString(`\u{5c}`)
		case c >= 0x20 && c < 0x7f:
			sb.WriteByte(c)
		default:
			fmt.Fprintf(&sb, `\u{%x}`, c)
		}
	}
	sb.WriteByte('"')
	return sb.String()
}

// parseSmtStr decodes a string literal from a model into Go bytes.
func parseSmtStr(lit string) string {
	lit = strings.TrimSpace(lit)
	if len(lit) < 2 || lit[0] != '"' {
		return lit
	}
	lit = lit[1 : len(lit)-1]
	var out []byte
	for i := 0; i < len(lit); i++ {
		c := lit[i]
		if c == '"' && i+1 < len(lit) && lit[i+1] == '"' {
			out = append(out, '"')
			i++
			continue
		}
		if c == '\\' && i+1 < len(lit) {
			if lit[i+1] == 'u' && i+2 < len(lit) && lit[i+2] == '{' {
				j := strings.IndexByte(lit[i:], '}')
				if j > 0 {
					v, err := strconv.ParseUint(lit[i+3:i+j], 16, 32)
					if err == nil {
						out = append(out, byte(v))
						i += j
						continue
					}
				}
			}
			if lit[i+1] == 'u' && i+5 < len(lit) {
				v, err := strconv.ParseUint(lit[i+2:i+6], 16, 32)
				if err == nil {
					out = append(out, byte(v))
					i += 5
					continue
				}
			}
			if lit[i+1] == 'x' && i+3 < len(lit) {
				v, err := strconv.ParseUint(lit[i+2:i+4], 16, 32)
				if err == nil {
					out = append(out, byte(v))
					i += 3
					continue
				}
			}
		}
		out = append(out, c)
	}
	return string(out)
}

// parseSmtInt decodes an Int model value like 5 or (- 5).
func parseSmtInt(v string) (int64, bool) {
	v = strings.TrimSpace(v)
	neg := false
	if strings.HasPrefix(v, "(-") {
		neg = true
		v = strings.TrimSpace(strings.TrimSuffix(strings.TrimPrefix(v, "(-"), ")"))
	}
	u, err := strconv.ParseUint(v, 10, 64)
	if err != nil {
		return 0, false
	}
	if neg {
		return -int64(u), true
	}
	return int64(u), true
}

func sx(op string, args ...string) string {
	return "(" + op + " " + strings.Join(args, " ") + ")"
}

func smtAnd(ts ...string) string {
	if len(ts) == 0 {
		return "true"
	}
	if len(ts) == 1 {
		return ts[0]
	}
	return sx("and", ts...)
}

func smtOr(ts ...string) string {
	if len(ts) == 0 {
		return "false"
	}
	if len(ts) == 1 {
		return ts[0]
	}
	return sx("or", ts...)
}

func smtNot(t string) string {
	if t == "true" {
		return "false"
	}
	if t == "false" {
		return "true"
	}
	if strings.HasPrefix(t, "(not ") {
		return t[5 : len(t)-1]
	}
	return "(not " + t + ")"
}
