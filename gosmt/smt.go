package main

// SMT-LIB2 term construction and a long-lived solver process (z3 -in).
// Terms are plain strings; sorts are tracked on the Go side.

import (
	"bufio"
	"os"
	"fmt"
	"io"
	"os/exec"
	"strconv"
	"strings"
	"sync/atomic"
	"time"
)

type Sort uint8

const (
	SBool Sort = iota
	SInt
	SStr   // Go string
	SBytes // Go []byte with symbolic length; same SMT sort as SStr
	SFP    // float64
)

func (s Sort) smt() string {
	switch s {
	case SBool:
		return "Bool"
	case SInt:
		return "Int"
	case SStr, SBytes:
		return "String"
	case SFP:
		return "(_ FloatingPoint 11 53)"
	}
	panic("sort")
}

// prelude defines the helper functions used by the encoding.
const smtPrelude = `
(set-option :produce-models true)
(define-fun wrap_s64 ((x Int)) Int (- (mod (+ x 9223372036854775808) 18446744073709551616) 9223372036854775808))
(define-fun wrap_s32 ((x Int)) Int (- (mod (+ x 2147483648) 4294967296) 2147483648))
(define-fun wrap_s16 ((x Int)) Int (- (mod (+ x 32768) 65536) 32768))
(define-fun wrap_s8 ((x Int)) Int (- (mod (+ x 128) 256) 128))
(define-fun wrap_u64 ((x Int)) Int (mod x 18446744073709551616))
(define-fun wrap_u32 ((x Int)) Int (mod x 4294967296))
(define-fun wrap_u16 ((x Int)) Int (mod x 65536))
(define-fun wrap_u8 ((x Int)) Int (mod x 256))
(define-fun go_quo ((x Int) (y Int)) Int (ite (>= x 0) (ite (> y 0) (div x y) (- (div x (- y)))) (ite (> y 0) (- (div (- x) y)) (div (- x) (- y)))))
(define-fun go_rem ((x Int) (y Int)) Int (- x (* y (go_quo x y))))
(define-fun fmt_int ((x Int)) String (ite (< x 0) (str.++ "-" (str.from_int (- x))) (str.from_int x)))
(declare-fun json_esc (String) String)
(declare-fun json_valid (String) Bool)
`

type solverStats struct {
	queries  int64
	sat      int64
	unsat    int64
	unknown  int64
	solverNs int64
	hardTimeouts int64
	fallbacks int64
	wrapChecks int64
}

var gstats solverStats

type Solver struct {
	bin    string
	args   []string
	cmd    *exec.Cmd
	in     io.WriteCloser
	out    *bufio.Reader
	depth  int
	log    io.Writer
	dead   bool
	tmoMs  int
	frames [][]string
	curTmo int
	alt    *Solver // optional second solver (cvc5) mirrored and consulted when the primary answers unknown
	lastSat *Solver
}

func NewSolver(bin string, tmoMs int) *Solver {
	s := &Solver{bin: bin, tmoMs: tmoMs}
	switch {
	case strings.Contains(bin, "cvc5"):
		s.args = []string{"--incremental", "--lang=smt2", "--strings-exp", "--strings-model-max-len=2147483647", fmt.Sprintf("--tlimit-per=%d", tmoMs)}
	default:
		s.args = []string{"-in", fmt.Sprintf("-t:%d", tmoMs)}
	}
	s.start()
	return s
}

func (s *Solver) start() {
	s.cmd = exec.Command(s.bin, s.args...)
	var err error
	s.in, err = s.cmd.StdinPipe()
	if err != nil {
		panic(err)
	}
	op, err := s.cmd.StdoutPipe()
	if err != nil {
		panic(err)
	}
	s.cmd.Stderr = nil
	if err := s.cmd.Start(); err != nil {
		panic(err)
	}
	s.out = bufio.NewReaderSize(op, 1<<16)
	s.depth = 0
	s.dead = false
	s.frames = nil
	if strings.Contains(s.bin, "cvc5") {
		s.send("(set-logic ALL)")
	}
	s.send(smtPrelude)
}

func (s *Solver) Close() {
	if s.alt != nil {
		s.alt.Close()
	}
	if s.cmd != nil && s.cmd.Process != nil {
		s.in.Close()
		s.cmd.Process.Kill()
		s.cmd.Wait()
	}
}

func (s *Solver) send(str string) {
	if s.log != nil {
		io.WriteString(s.log, str+"\n")
	}
	if _, err := io.WriteString(s.in, str+"\n"); err != nil {
		s.dead = true
	}
}

func (s *Solver) Push() {
	if s.alt != nil {
		s.alt.Push()
	}
	s.send("(push 1)")
	s.depth++
	s.frames = append(s.frames, nil)
}
func (s *Solver) Pop() {
	if s.alt != nil {
		s.alt.Pop()
	}
	s.send("(pop 1)")
	s.depth--
	if len(s.frames) > 0 {
		s.frames = s.frames[:len(s.frames)-1]
	}
}

// SetTimeout changes the soft timeout of subsequent check-sat calls.
func (s *Solver) SetTimeout(ms int) {
	s.curTmo = ms
	if strings.Contains(s.bin, "cvc5") {
		return
	}
	s.send(fmt.Sprintf("(set-option :timeout %d)", ms))
}

func (s *Solver) record(cmd string) {
	if len(s.frames) == 0 {
		s.frames = append(s.frames, nil)
	}
	s.frames[len(s.frames)-1] = append(s.frames[len(s.frames)-1], cmd)
}

// Script renders the current assertion stack as a standalone SMT-LIB script.
func (s *Solver) Script(extra string) string {
	var sb strings.Builder
	sb.WriteString("(set-logic ALL)\n")
	sb.WriteString(strings.Replace(smtPrelude, "(set-option :produce-models true)", "", 1))
	for _, f := range s.frames {
		for _, c := range f {
			sb.WriteString(c)
			sb.WriteByte('\n')
		}
	}
	if extra != "" {
		sb.WriteString("(assert " + extra + ")\n")
	}
	sb.WriteString("(check-sat)\n")
	return sb.String()
}

// CheckFallback decides stack+extra with the other installed solvers (one-shot).
func (s *Solver) CheckFallback(extra string, tmoS int) SatResult {
	f, err := os.CreateTemp("/verif/out", "fallback-*.smt2")
	if err != nil {
		return Unknown
	}
	defer os.Remove(f.Name())
	f.WriteString(s.Script(extra))
	f.Close()
	for _, cmdline := range [][]string{
		{"z3", fmt.Sprintf("-T:%d", tmoS), f.Name()},
		{"cvc5", "--strings-exp", fmt.Sprintf("--tlimit=%d", tmoS*1000), f.Name()},
	} {
		t0 := time.Now()
		out, _ := exec.Command(cmdline[0], cmdline[1:]...).CombinedOutput()
		atomic.AddInt64(&gstats.solverNs, int64(time.Since(t0)))
		atomic.AddInt64(&gstats.fallbacks, 1)
		txt := string(out)
		if strings.Contains(txt, "(error") {
			continue
		}
		for _, line := range strings.Split(txt, "\n") {
			switch strings.TrimSpace(line) {
			case "unsat":
				return Unsat
			case "sat":
				return Sat
			}
		}
	}
	return Unknown
}

// Reset pops everything asserted since start.
func (s *Solver) ResetTo(depth int) {
	for s.depth > depth {
		s.Pop()
	}
}

func (s *Solver) Declare(name string, sort Sort) {
	c := fmt.Sprintf("(declare-const %s %s)", name, sort.smt())
	if s.alt != nil {
		s.alt.Declare(name, sort)
	}
	s.record(c)
	s.send(c)
}

func (s *Solver) DeclareRaw(c string) {
	if s.alt != nil {
		s.alt.DeclareRaw(c)
	}
	s.record(c)
	s.send(c)
}

func (s *Solver) Assert(t string) {
	if s.alt != nil {
		s.alt.Assert(t)
	}
	c := "(assert " + t + ")"
	s.record(c)
	s.send(c)
}

type SatResult int

const (
	Unsat SatResult = iota
	Sat
	Unknown
)

func (r SatResult) String() string { return [...]string{"unsat", "sat", "unknown"}[r] }

func (s *Solver) readLine() (string, error) {
	line, err := s.out.ReadString('\n')
	return strings.TrimSpace(line), err
}

// Check runs check-sat on the current assertion stack. A watchdog kills the
// solver process when it ignores its soft timeout; the answer is then Unknown
// and the solver is marked dead (the caller must abandon the current path).
func (s *Solver) Check() SatResult {
	if s.alt == nil {
		return s.check1()
	}
	if s.dead {
		s.resync()
	}
	r := s.check1()
	s.lastSat = s
	if r != Unknown {
		return r
	}
	if s.alt.dead {
		s.alt.resync()
	}
	r2 := s.alt.check1()
	if r2 == Sat {
		s.lastSat = s.alt
	}
	return r2
}

// resync restarts a dead solver process and replays the recorded assertion stack.
func (s *Solver) resync() {
	if s.cmd != nil && s.cmd.Process != nil {
		s.cmd.Process.Kill()
		s.cmd.Wait()
	}
	frames := s.frames
	s.start()
	for i, f := range frames {
		if i > 0 {
			s.send("(push 1)")
			s.depth++
		}
		for _, c := range f {
			s.send(c)
		}
	}
	s.frames = frames
	if s.curTmo != 0 && !strings.Contains(s.bin, "cvc5") {
		s.send(fmt.Sprintf("(set-option :timeout %d)", s.curTmo))
	}
}

func (s *Solver) check1() SatResult {
	t0 := time.Now()
	if s.dead {
		return Unknown
	}
	s.send("(check-sat)")
	res := Unknown
	type lineRes struct {
		line string
		err  error
	}
	done := make(chan SatResult, 1)
	go func() {
		r := Unknown
		for {
			line, err := s.readLine()
			if err != nil {
				s.dead = true
				break
			}
			if line == "" {
				continue
			}
			if line == "sat" {
				r = Sat
				break
			}
			if line == "unsat" {
				r = Unsat
				break
			}
			if line == "unknown" || line == "timeout" {
				r = Unknown
				break
			}
			if strings.HasPrefix(line, "(error") {
				// any error makes the answer inconclusive; drain the verdict that follows
				if s.log != nil {
					io.WriteString(s.log, "; SOLVER ERROR: "+line+"\n")
				}
				lastSolverError.Store(line)
				for {
					l2, err := s.readLine()
					if err != nil || l2 == "sat" || l2 == "unsat" || l2 == "unknown" {
						break
					}
				}
				r = Unknown
				break
			}
		}
		done <- r
	}()
	select {
	case res = <-done:
	case <-time.After(time.Duration(maxInt(s.tmoMs, s.curTmo))*time.Millisecond + 3*time.Second):
		s.dead = true
		s.cmd.Process.Kill()
		<-done
		res = Unknown
		atomic.AddInt64(&gstats.hardTimeouts, 1)
		if slowLog {
			fmt.Fprintf(os.Stderr, "HARD TIMEOUT after %.0fs\n", time.Since(t0).Seconds())
			os.WriteFile(fmt.Sprintf("/verif/out/slow-hard-%d.smt2", time.Now().UnixNano()), []byte(s.Script("")), 0o644)
		}
	}
	atomic.AddInt64(&gstats.queries, 1)
	atomic.AddInt64(&gstats.solverNs, int64(time.Since(t0)))
	if d := time.Since(t0); d > 2*time.Second && slowLog {
		last := ""
		if n := len(s.frames); n > 0 && len(s.frames[n-1]) > 0 {
			last = s.frames[n-1][len(s.frames[n-1])-1]
		}
		fmt.Fprintf(os.Stderr, "SLOW QUERY %.1fs -> %v: %s\n", d.Seconds(), res, last)
		if slowDump {
			os.WriteFile(fmt.Sprintf("/verif/out/slow-%d.smt2", time.Now().UnixNano()), []byte(s.Script("")), 0o644)
		}
	}
	switch res {
	case Sat:
		atomic.AddInt64(&gstats.sat, 1)
	case Unsat:
		atomic.AddInt64(&gstats.unsat, 1)
	default:
		atomic.AddInt64(&gstats.unknown, 1)
	}
	return res
}

var lastSolverError atomic.Value
var slowLog = os.Getenv("VERIF_SLOWLOG") != ""
var slowDump = os.Getenv("VERIF_SLOWLOG") == "dump"

// CheckWith checks the stack plus an extra assertion, leaving the stack unchanged.
func (s *Solver) CheckWith(t string) SatResult {
	s.Push()
	s.Assert(t)
	r := s.Check()
	s.Pop()
	return r
}

// GetValues evaluates the named constants in the current model (after a sat).
func (s *Solver) GetValues(names []string) map[string]string {
	if s.alt != nil && s.lastSat == s.alt {
		return s.alt.GetValues(names)
	}
	res := map[string]string{}
	for _, n := range names {
		s.send("(get-value (" + n + "))")
		txt := s.readSexp()
		// ((name value))
		txt = strings.TrimSpace(txt)
		if strings.HasPrefix(txt, "(error") {
			continue
		}
		txt = strings.TrimPrefix(txt, "((")
		txt = strings.TrimSuffix(txt, "))")
		if strings.HasPrefix(txt, n) {
			res[n] = strings.TrimSpace(txt[len(n):])
			continue
		}
		i := strings.IndexAny(txt, " \n")
		if i < 0 {
			continue
		}
		res[n] = strings.TrimSpace(txt[i+1:])
	}
	return res
}

// readSexp reads one balanced s-expression from the solver output.
func (s *Solver) readSexp() string {
	var sb strings.Builder
	depth := 0
	started := false
	inStr := false
	for {
		b, err := s.out.ReadByte()
		if err != nil {
			s.dead = true
			return sb.String()
		}
		if !started {
			if b == ' ' || b == '\n' || b == '\r' || b == '\t' {
				continue
			}
			started = true
		}
		sb.WriteByte(b)
		if inStr {
			if b == '"' {
				inStr = false
			}
			continue
		}
		switch b {
		case '"':
			inStr = true
		case '(':
			depth++
		case ')':
			depth--
			if depth == 0 {
				// consume rest of line
				s.out.ReadString('\n')
				return sb.String()
			}
		case '\n':
			if depth == 0 {
				return sb.String()
			}
		}
	}
}

// ---------------------------------------------------------------------------
// term helpers

func smtInt(v int64) string {
	if v < 0 {
		if v == -9223372036854775808 {
			return "(- 9223372036854775808)"
		}
		return "(- " + strconv.FormatInt(-v, 10) + ")"
	}
	return strconv.FormatInt(v, 10)
}

func smtUint(v uint64) string { return strconv.FormatUint(v, 10) }

func smtBool(b bool) string {
	if b {
		return "true"
	}
	return "false"
}

// smtStr renders a Go byte string as an SMT-LIB string literal (each byte one char).
func smtStr(s string) string {
	var sb strings.Builder
	sb.WriteByte('"')
	for i := 0; i < len(s); i++ {
		c := s[i]
		switch {
		case c == '"':
			sb.WriteString(`""`)
		case c == '\\':
			sb.WriteString(`\u{5c}`)
		case c >= 0x20 && c < 0x7f:
			sb.WriteByte(c)
		default:
			fmt.Fprintf(&sb, `\u{%x}`, c)
		}
	}
	sb.WriteByte('"')
	return sb.String()
}

// parseSmtStr decodes a string literal from a model into Go bytes.
func parseSmtStr(lit string) string {
	lit = strings.TrimSpace(lit)
	if len(lit) < 2 || lit[0] != '"' {
		return lit
	}
	lit = lit[1 : len(lit)-1]
	var out []byte
	for i := 0; i < len(lit); i++ {
		c := lit[i]
		if c == '"' && i+1 < len(lit) && lit[i+1] == '"' {
			out = append(out, '"')
			i++
			continue
		}
		if c == '\\' && i+1 < len(lit) {
			if lit[i+1] == 'u' && i+2 < len(lit) && lit[i+2] == '{' {
				j := strings.IndexByte(lit[i:], '}')
				if j > 0 {
					v, err := strconv.ParseUint(lit[i+3:i+j], 16, 32)
					if err == nil {
						out = append(out, byte(v))
						i += j
						continue
					}
				}
			}
			if lit[i+1] == 'u' && i+5 < len(lit) {
				v, err := strconv.ParseUint(lit[i+2:i+6], 16, 32)
				if err == nil {
					out = append(out, byte(v))
					i += 5
					continue
				}
			}
			if lit[i+1] == 'x' && i+3 < len(lit) {
				v, err := strconv.ParseUint(lit[i+2:i+4], 16, 32)
				if err == nil {
					out = append(out, byte(v))
					i += 3
					continue
				}
			}
		}
		out = append(out, c)
	}
	return string(out)
}

// parseSmtInt decodes an Int model value like 5 or (- 5).
func parseSmtInt(v string) (int64, bool) {
	v = strings.TrimSpace(v)
	neg := false
	if strings.HasPrefix(v, "(-") {
		neg = true
		v = strings.TrimSpace(strings.TrimSuffix(strings.TrimPrefix(v, "(-"), ")"))
	}
	u, err := strconv.ParseUint(v, 10, 64)
	if err != nil {
		return 0, false
	}
	if neg {
		return -int64(u), true
	}
	return int64(u), true
}

func sx(op string, args ...string) string {
	return "(" + op + " " + strings.Join(args, " ") + ")"
}

func smtAnd(ts ...string) string {
	if len(ts) == 0 {
		return "true"
	}
	if len(ts) == 1 {
		return ts[0]
	}
	return sx("and", ts...)
}

func smtOr(ts ...string) string {
	if len(ts) == 0 {
		return "false"
	}
	if len(ts) == 1 {
		return ts[0]
	}
	return sx("or", ts...)
}

func smtNot(t string) string {
	if t == "true" {
		return "false"
	}
	if t == "false" {
		return "true"
	}
	if strings.HasPrefix(t, "(not ") {
		return t[5 : len(t)-1]
	}
	return "(not " + t + ")"
}

func maxInt(a, b int) int {
	if a > b {
		return a
	}
	return b
}
