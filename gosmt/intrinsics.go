package main

// Intrinsics: contracts for harness primitives, sync, time, logging and the
// parts of the standard library that are not executed from SSA.

import (
	"fmt"
	"go/token"
	"go/types"
	"regexp/syntax"
	"strings"

	"golang.org/x/tools/go/ssa"
)

type typeSet struct{}

func (e *engine) intrinsic(fn *ssa.Function, name string) intrinsicFn {
	if f, ok := e.intr[name]; ok {
		return f
	}
	// harness API: functions named verif* in any package
	if fn.Pkg != nil && strings.HasPrefix(fn.Name(), "verif") {
		if f, ok := e.intr["verif:"+fn.Name()]; ok {
			return f
		}
	}
	if fn.Pkg != nil {
		pp := fn.Pkg.Pkg.Path()
		switch pp {
		case "github.com/sirupsen/logrus":
			return logrusIntrinsic(fn)
		}
	}
	return nil
}

func logrusIntrinsic(fn *ssa.Function) intrinsicFn {
	name := fn.Name()
	switch {
	case strings.HasPrefix(name, "Panic"):
		return func(fr *frame, args []value) value {
			panic(targetPanic{msg: "log.Panic: " + fr.r.sprintArgs(fr, fn, args), pos: fr.r.callerPos(fr)})
		}
	case strings.HasPrefix(name, "Fatal"):
		return func(fr *frame, args []value) value {
			panic(targetPanic{msg: "log.Fatal (process exit): " + fr.r.sprintArgs(fr, fn, args), pos: fr.r.callerPos(fr)})
		}
	}
	res := fn.Signature.Results()
	return func(fr *frame, args []value) value {
		switch res.Len() {
		case 0:
			return nil
		case 1:
			t := res.At(0).Type()
			if p, ok := t.Underlying().(*types.Pointer); ok {
				// *Entry / *Logger: a dummy non-nil object
				v := zero(p.Elem())
				return &v
			}
			return zero(t)
		}
		return zero(res)
	}
}

func (r *run) callerPos(fr *frame) string {
	if fr.callpos != token.NoPos {
		return r.e.prog.Fset.Position(fr.callpos).String()
	}
	if fr.caller != nil {
		return fr.caller.fn.String()
	}
	return ""
}

// sprintArgs renders log arguments (format string first if it is a *f function).
func (r *run) sprintArgs(fr *frame, fn *ssa.Function, args []value) string {
	defer func() { recover() }()
	var parts []string
	for _, a := range args {
		switch a := a.(type) {
		case string:
			parts = append(parts, a)
		case []value:
			for _, x := range a {
				if it, ok := x.(iface); ok {
					s := r.formatOne(fr, 'v', it)
					switch s := s.(type) {
					case string:
						parts = append(parts, s)
					case *sym:
						parts = append(parts, "<sym>")
					}
				}
			}
		}
	}
	return truncate(strings.Join(parts, " "), 300)
}

func (e *engine) namedType(pkgPath, name string) types.Type {
	p := e.prog.ImportedPackage(pkgPath)
	if p == nil {
		panic(unsupported{"package not loaded: " + pkgPath})
	}
	t := p.Type(name)
	if t == nil {
		panic(unsupported{"type not found: " + pkgPath + "." + name})
	}
	return t.Type()
}

// newError builds an *errors.errorString carrying msg.
func (r *run) newError(msg value) iface {
	t := types.NewPointer(r.e.namedType("errors", "errorString"))
	var s value = structure{msg}
	return iface{t: t, v: &s}
}

func labelArg(args []value, i int) string {
	if i < len(args) {
		if s, ok := args[i].(string); ok {
			return s
		}
		if sy, ok := args[i].(*sym); ok {
			t := sy.t
			if len(t) > 300 {
				t = t[:300] + "..."
			}
			return "<symbolic text> " + t
		}
	}
	return "?"
}

func (r *run) nondet(kind, label string, sort Sort, lo, hi string) *sym {
	s := r.fresh("nd", label, sort)
	if lo != "" {
		r.assertPC(sx(">=", s.t, lo))
	}
	if hi != "" {
		r.assertPC(sx("<=", s.t, hi))
	}
	r.nondets = append(r.nondets, varDecl{Name: s.t, Label: label, Kind: kind, sort: sort})
	return s
}

const reBytes = `(re.* (re.range "\u{0}" "\u{ff}"))`
const reHeader = `(re.* (re.range " " "~"))`

func buildIntrinsics() map[string]intrinsicFn {
	m := map[string]intrinsicFn{}

	// ---- harness API ------------------------------------------------------
	m["verif:verifNondetInt"] = func(fr *frame, a []value) value {
		return fr.r.nondet("int", labelArg(a, 0), SInt, "(- 9223372036854775808)", "9223372036854775807")
	}
	m["verif:verifNondetInt64"] = m["verif:verifNondetInt"]
	m["verif:verifNondetInt32"] = func(fr *frame, a []value) value {
		return fr.r.nondet("int", labelArg(a, 0), SInt, "(- 2147483648)", "2147483647")
	}
	m["verif:verifNondetUint16"] = func(fr *frame, a []value) value {
		return fr.r.nondet("int", labelArg(a, 0), SInt, "0", "65535")
	}
	m["verif:verifNondetUint32"] = func(fr *frame, a []value) value {
		return fr.r.nondet("int", labelArg(a, 0), SInt, "0", "4294967295")
	}
	m["verif:verifNondetUint64"] = func(fr *frame, a []value) value {
		return fr.r.nondet("int", labelArg(a, 0), SInt, "0", "18446744073709551615")
	}
	m["verif:verifNondetByte"] = func(fr *frame, a []value) value {
		return fr.r.nondet("int", labelArg(a, 0), SInt, "0", "255")
	}
	m["verif:verifNondetBool"] = func(fr *frame, a []value) value {
		return fr.r.nondet("bool", labelArg(a, 0), SBool, "", "")
	}
	m["verif:verifNondetString"] = func(fr *frame, a []value) value {
		s := fr.r.nondet("string", labelArg(a, 0), SStr, "", "")
		fr.r.assertPC("(str.in_re " + s.t + " " + reBytes + ")")
		fr.r.assertPC("(<= (str.len " + s.t + ") 1073741824)")
		return s
	}
	// verifNondetPayload: a byte sequence of any length that is only copied, cut and compared
	// (no character-class constraint: sat queries with multi-megabyte lengths stay tractable)
	m["verif:verifNondetPayload"] = func(fr *frame, a []value) value {
		s := fr.r.nondet("bytes", labelArg(a, 0), SBytes, "", "")
		fr.r.assertPC("(<= (str.len " + s.t + ") 1073741824)")
		return s
	}
	// verifNondetToken: a non-empty string without whitespace or parentheses; only its length and
	// identity matter (no character-class constraint is handed to the solver: the structure-aware
	// strings.Fields / ReplaceAll intrinsics rely on the declaration instead)
	m["verif:verifNondetToken"] = func(fr *frame, a []value) value {
		s := fr.r.nondet("string", labelArg(a, 0), SStr, "", "")
		fr.r.assertPC("(<= (str.len " + s.t + ") 1073741824)")
		fr.r.assertPC("(>= (str.len " + s.t + ") 1)")
		fr.r.tokens[s.t] = true
		return s
	}
	m["verif:verifNondetOpaque"] = func(fr *frame, a []value) value {
		s := fr.r.nondet("string", labelArg(a, 0), SStr, "", "")
		fr.r.assertPC("(<= (str.len " + s.t + ") 1073741824)")
		return s
	}
	m["verif:verifNondetHeader"] = func(fr *frame, a []value) value {
		s := fr.r.nondet("string", labelArg(a, 0), SStr, "", "")
		fr.r.assertPC("(str.in_re " + s.t + " " + reHeader + ")")
		fr.r.assertPC("(<= (str.len " + s.t + ") 1073741824)")
		return s
	}
	m["verif:verifNondetBytes"] = func(fr *frame, a []value) value {
		s := fr.r.nondet("bytes", labelArg(a, 0), SBytes, "", "")
		fr.r.assertPC("(str.in_re " + s.t + " " + reBytes + ")")
		fr.r.assertPC("(<= (str.len " + s.t + ") 1073741824)")
		return s
	}
	m["verif:verifChoice"] = func(fr *frame, a []value) value {
		r := fr.r
		n := int(asInt64(a[0]))
		k := r.choose(n, "choice")
		// a symbolic variable pinned by the case split, so it shows up in models
		r.nondets = append(r.nondets, varDecl{Name: fmt.Sprint(k), Label: labelArg(a, 1), Kind: "choice", sort: SInt})
		return int64(k)
	}
	m["verif:verifAssume"] = func(fr *frame, a []value) value {
		r := fr.r
		switch c := a[0].(type) {
		case bool:
			if !c {
				panic(pathEnd{"assume false"})
			}
		case *sym:
			r.assertPC(c.t)
			// feasibility is checked lazily at the next branch; check now to cut dead paths early
			if len(r.trace) >= len(r.prefix) {
				if r.solver.Check() == Unsat {
					panic(pathEnd{"assume infeasible"})
				}
			}
		}
		return nil
	}
	m["verif:verifAssert"] = func(fr *frame, a []value) value {
		r := fr.r
		msg := labelArg(a, 1)
		pos := r.callerPos(fr)
		switch c := a[0].(type) {
		case bool:
			if !c {
				r.addViolation(violation{Kind: "assert", Msg: msg, Pos: shortPos(pos)}, true)
				panic(pathEnd{"assert failed"})
			}
		case *sym:
			r.solver.Push()
			r.solver.Assert(smtNot(c.t))
			res := r.solver.Check()
			if res == Unknown && !r.solver.dead {
				// cross-solver fallback before giving up (z3-new, cvc5; one-shot on the full stack)
				if fb := r.solver.CheckFallback("", 60); fb == Unsat {
					res = Unsat
				}
			}
			switch res {
			case Sat:
				v := violation{Kind: "assert", Msg: msg, Pos: shortPos(pos), Harness: r.h.name}
				v.Trace = append([]int(nil), r.trace...)
				v.Sched = append([]string(nil), r.schedLog...)
				r.fillModel(&v)
				r.violations = append(r.violations, v)
			case Unknown:
				r.inconclusive("solver unknown on assertion: " + msg)
			}
			r.solver.Pop()
			r.assertPC(c.t)
			if res == Sat {
				// continue on the part of the path where the assertion holds, if any
				if r.solver.Check() == Unsat {
					panic(pathEnd{"assert always fails"})
				}
			}
		}
		r.reached["assert:"+msg] = true
		return nil
	}
	m["verif:verifReach"] = func(fr *frame, a []value) value {
		fr.r.reached[labelArg(a, 0)] = true
		return nil
	}
	m["verif:verifSpawn"] = func(fr *frame, a []value) value {
		fr.r.spawn(fr, a[0], nil, false, fr.r.callerPos(fr))
		return nil
	}
	m["verif:verifSpawnEnv"] = func(fr *frame, a []value) value {
		fr.r.spawn(fr, a[0], nil, true, fr.r.callerPos(fr))
		return nil
	}
	m["verif:verifYield"] = func(fr *frame, a []value) value {
		fr.r.yield()
		return nil
	}
	m["verif:verifWaitAll"] = func(fr *frame, a []value) value {
		r := fr.r
		me := r.cur
		r.blockUntil("verifWaitAll", func() bool {
			for _, t := range r.threads {
				if t != me && !t.env && !t.done {
					return false
				}
			}
			return true
		})
		return nil
	}
	// verifSettle: run the other threads until nobody else can make progress.
	m["verif:verifSettle"] = func(fr *frame, a []value) value {
		r := fr.r
		me := r.cur
		r.blockUntil("verifSettle", func() bool {
			for _, t := range r.threads {
				if t != me && t.enabled() {
					return false
				}
			}
			return true
		})
		return nil
	}
	m["verif:verifFullMatch"] = func(fr *frame, a []value) value {
		pat := a[0].(string)
		re, err := regexToSMT(`^(?:`+pat+`)$`, true)
		if err != nil {
			panic(unsupported{"regex: " + err.Error()})
		}
		return &sym{"(str.in_re " + strTerm(a[1]) + " " + re + ")", SBool}
	}
	m["verif:verifPanics"] = func(fr *frame, a []value) (res value) {
		r := fr.r
		defer func() {
			if p := recover(); p != nil {
				if _, ok := p.(targetPanic); ok {
					res = true
					return
				}
				panic(p)
			}
		}()
		r.call(fr, token.NoPos, a[0], nil)
		return false
	}
	m["verif:verifJSONLen"] = func(fr *frame, a []value) value {
		switch s := a[0].(type) {
		case string:
			return int64(len(jsonQuote(s)))
		case *sym:
			return &sym{"(str.len (json_esc " + s.t + "))", SInt}
		}
		panic("verifJSONLen")
	}
	// verifStub(name, fn): calls to the function with that full name are routed to fn.
	m["verif:verifStub"] = func(fr *frame, a []value) value {
		it := a[1].(iface)
		fr.r.stubs[a[0].(string)] = it.v
		return nil
	}
	// verifDaemon(substr): goroutines whose entry function name contains substr may block forever
	m["verif:verifDaemon"] = func(fr *frame, a []value) value {
		fr.r.daemons = append(fr.r.daemons, a[0].(string))
		return nil
	}
	m["verif:verifBlockForever"] = func(fr *frame, a []value) value {
		fr.r.blockForever("verifBlockForever")
		return nil
	}
	// verifRaceTimers(on): timers may fire at any scheduling point (on) or only at quiescence (off)
	m["verif:verifRaceTimers"] = func(fr *frame, a []value) value {
		fr.r.raceTimers = a[0].(bool)
		fr.r.raceSet = true
		return nil
	}
	// verifInvariant(name, f): f is evaluated (atomically) at every scheduling point; it must hold
	m["verif:verifInvariant"] = func(fr *frame, a []value) value {
		fr.r.invariants = append(fr.r.invariants, invariantRec{name: a[0].(string), fn: a[1]})
		return nil
	}
	// verifWaitUntil(f): parks the calling thread until the predicate holds
	m["verif:verifWaitUntil"] = func(fr *frame, a []value) value {
		r := fr.r
		pred := a[0]
		r.blockUntil("verifWaitUntil", func() bool {
			r.atomicDepth++
			defer func() { r.atomicDepth-- }()
			res := r.call(nil, token.NoPos, pred, nil)
			b, _ := res.(bool)
			return b
		})
		return nil
	}
	// verifAdvanceClock(ns): logical time passes (concrete clock only)
	m["verif:verifAdvanceClock"] = func(fr *frame, a []value) value {
		if fr.r.h.concreteClock {
			fr.r.nowC += asInt64(a[0])
		}
		return nil
	}
	m["verif:verifTicks"] = func(fr *frame, a []value) value { return int64(fr.r.ticks) }
	m["verif:verifReplayFailures"] = func(fr *frame, a []value) value { return []value(nil) }

	addSyncIntrinsics(m)
	addTimeIntrinsics(m)
	addStringIntrinsics(m)
	addFmtIntrinsics(m)
	addIOIntrinsics(m)
	addMiscIntrinsics(m)
	addJSONIntrinsics(m)
	return m
}

// ---------------------------------------------------------------------------
// regexp -> SMT RegLan

func regexToSMT(pattern string, anchoredBoth bool) (string, error) {
	re, err := syntax.Parse(pattern, syntax.Perl)
	if err != nil {
		return "", err
	}
	re = re.Simplify()
	// Determine anchoring: Go's MatchString is an unanchored search.
	t, startAnch, endAnch := reToSMT(re)
	if !startAnch {
		t = "(re.++ re.all " + t + ")"
	}
	if !endAnch {
		t = "(re.++ " + t + " re.all)"
	}
	return t, nil
}

// reToSMT translates a regexp/syntax tree. It reports whether the expression
// begins with ^ / ends with $ at top level (only top-level concatenations and
// alternations whose every branch is anchored are recognised).
func reToSMT(re *syntax.Regexp) (string, bool, bool) {
	switch re.Op {
	case syntax.OpConcat:
		subs := re.Sub
		start, end := false, false
		if len(subs) > 0 && (subs[0].Op == syntax.OpBeginText || subs[0].Op == syntax.OpBeginLine) {
			start = true
			subs = subs[1:]
		}
		if len(subs) > 0 && (subs[len(subs)-1].Op == syntax.OpEndText || subs[len(subs)-1].Op == syntax.OpEndLine) {
			end = true
			subs = subs[:len(subs)-1]
		}
		var parts []string
		for i, s := range subs {
			t, sa, ea := reToSMT(s)
			if i == 0 && sa {
				start = true
			}
			if i == len(subs)-1 && ea {
				end = true
			}
			parts = append(parts, t)
		}
		switch len(parts) {
		case 0:
			return `(str.to_re "")`, start, end
		case 1:
			return parts[0], start, end
		}
		return "(re.++ " + strings.Join(parts, " ") + ")", start, end
	case syntax.OpCapture:
		return reToSMT(re.Sub[0])
	case syntax.OpAlternate:
		var parts []string
		allS, allE := true, true
		anyS, anyE := false, false
		type br struct {
			t    string
			s, e bool
		}
		var brs []br
		for _, s := range re.Sub {
			t, sa, ea := reToSMT(s)
			brs = append(brs, br{t, sa, ea})
			allS = allS && sa
			allE = allE && ea
			anyS = anyS || sa
			anyE = anyE || ea
		}
		for _, b := range brs {
			t := b.t
			if !allS && anyS && !b.s {
				t = "(re.++ re.all " + t + ")"
			}
			if !allE && anyE && !b.e {
				t = "(re.++ " + t + " re.all)"
			}
			parts = append(parts, t)
		}
		return "(re.union " + strings.Join(parts, " ") + ")", allS || anyS, allE || anyE
	}
	return reSimple(re), false, false
}

func reSimple(re *syntax.Regexp) string {
	switch re.Op {
	case syntax.OpLiteral:
		var sb strings.Builder
		for _, r := range re.Rune {
			sb.WriteRune(r)
		}
		if re.Flags&syntax.FoldCase != 0 {
			var parts []string
			for _, r := range re.Rune {
				lo, up := strings.ToLower(string(r)), strings.ToUpper(string(r))
				if lo != up {
					parts = append(parts, "(re.union (str.to_re "+smtStr(lo)+") (str.to_re "+smtStr(up)+"))")
				} else {
					parts = append(parts, "(str.to_re "+smtStr(string(r))+")")
				}
			}
			if len(parts) == 1 {
				return parts[0]
			}
			return "(re.++ " + strings.Join(parts, " ") + ")"
		}
		return "(str.to_re " + smtStr(sb.String()) + ")"
	case syntax.OpCharClass:
		var parts []string
		for i := 0; i+1 < len(re.Rune); i += 2 {
			lo, hi := re.Rune[i], re.Rune[i+1]
			if lo > 255 {
				continue
			}
			if hi > 255 {
				hi = 255
			}
			parts = append(parts, "(re.range "+smtStr(string([]byte{byte(lo)}))+" "+smtStr(string([]byte{byte(hi)}))+")")
		}
		if len(parts) == 0 {
			return "re.none"
		}
		if len(parts) == 1 {
			return parts[0]
		}
		return "(re.union " + strings.Join(parts, " ") + ")"
	case syntax.OpAnyCharNotNL:
		return `(re.union (re.range "\u{0}" "\u{9}") (re.range "\u{b}" "\u{ff}"))`
	case syntax.OpAnyChar:
		return `(re.range "\u{0}" "\u{ff}")`
	case syntax.OpStar:
		return "(re.* " + reNested(re.Sub[0]) + ")"
	case syntax.OpPlus:
		return "(re.+ " + reNested(re.Sub[0]) + ")"
	case syntax.OpQuest:
		return "(re.opt " + reNested(re.Sub[0]) + ")"
	case syntax.OpRepeat:
		sub := reNested(re.Sub[0])
		if re.Max < 0 {
			return fmt.Sprintf("(re.++ ((_ re.^ %d) %s) (re.* %s))", re.Min, sub, sub)
		}
		return fmt.Sprintf("((_ re.loop %d %d) %s)", re.Min, re.Max, sub)
	case syntax.OpEmptyMatch:
		return `(str.to_re "")`
	case syntax.OpConcat, syntax.OpAlternate, syntax.OpCapture:
		t, _, _ := reToSMT(re)
		return t
	case syntax.OpBeginText, syntax.OpEndText, syntax.OpBeginLine, syntax.OpEndLine:
		panic(unsupported{"regex anchor in nested position"})
	}
	panic(unsupported{"regex op " + re.Op.String()})
}

func reNested(re *syntax.Regexp) string { return reSimple(re) }
