package main

import (
	"fmt"
	"go/token"
	"go/types"
	"strconv"
	"strings"

	"golang.org/x/tools/go/ssa"
)

type ssaGlobal = ssa.Global

// catStr concatenates concrete/symbolic string values.
func catStr(parts []value) value {
	allc := true
	for _, p := range parts {
		if _, ok := p.(string); !ok {
			allc = false
		}
	}
	if allc {
		var sb strings.Builder
		for _, p := range parts {
			sb.WriteString(p.(string))
		}
		return sb.String()
	}
	// merge adjacent concretes
	var ts []string
	var cur strings.Builder
	flush := func() {
		if cur.Len() > 0 {
			ts = append(ts, smtStr(cur.String()))
			cur.Reset()
		}
	}
	for _, p := range parts {
		switch p := p.(type) {
		case string:
			cur.WriteString(p)
		case *sym:
			flush()
			ts = append(ts, p.t)
		}
	}
	flush()
	if len(ts) == 1 {
		return strSym(ts[0])
	}
	return strSym(sx("str.++", ts...))
}

// formatOne renders one operand for the verbs %v %s %d %q %t %x(partial).
func (r *run) formatOne(fr *frame, verb rune, arg value) value {
	it, ok := arg.(iface)
	if !ok {
		return toString(arg)
	}
	if it.t == nil {
		if verb == 's' || verb == 'd' {
			return "%!" + string(verb) + "(<nil>)"
		}
		return "<nil>"
	}
	// error / Stringer
	if verb == 'v' || verb == 's' || verb == 'q' {
		ms := r.e.prog.MethodSets.MethodSet(it.t)
		for _, mname := range []string{"Error", "String"} {
			for i := 0; i < ms.Len(); i++ {
				sel := ms.At(i)
				if sel.Obj().Name() != mname {
					continue
				}
				sig := sel.Type().(*types.Signature)
				if sig.Params().Len() != 0 || sig.Results().Len() != 1 || !isStringType(sig.Results().At(0).Type()) {
					continue
				}
				if p, ok := it.v.(*value); ok && p == nil {
					return "<nil>"
				}
				f := r.e.prog.MethodValue(sel)
				if f == nil {
					continue
				}
				s := r.call(fr, token.NoPos, f, []value{it.v})
				if verb == 'q' {
					return catStr([]value{`"`, s, `"`})
				}
				return s
			}
		}
	}
	return r.formatPlain(fr, verb, it.t, it.v, 0)
}

func (r *run) formatPlain(fr *frame, verb rune, t types.Type, v value, depth int) value {
	switch ut := t.Underlying().(type) {
	case *types.Basic:
		switch {
		case ut.Info()&types.IsString != 0:
			switch verb {
			case 'q':
				if s, ok := v.(string); ok {
					return strconv.Quote(s)
				}
				return catStr([]value{`"`, v, `"`})
			case 'x':
				if s, ok := v.(string); ok {
					return fmt.Sprintf("%x", s)
				}
				return "<hex>"
			case 'd':
				return "%!d(string=" + toString(v) + ")"
			}
			return v
		case ut.Info()&types.IsBoolean != 0:
			switch b := v.(type) {
			case bool:
				return strconv.FormatBool(b)
			case *sym:
				return strSym("(ite " + b.t + " \"true\" \"false\")")
			}
		case ut.Info()&types.IsInteger != 0:
			if verb == 'x' {
				switch x := v.(type) {
				case int64:
					return strconv.FormatInt(x, 16)
				case uint64:
					return strconv.FormatUint(x, 16)
				}
				return "<hex>"
			}
			if verb == 'c' {
				if x, ok := v.(int64); ok {
					return string(rune(x))
				}
				return "<c>"
			}
			return r.fmtInt(v, ut.Info()&types.IsUnsigned == 0)
		case ut.Info()&types.IsFloat != 0:
			if f, ok := v.(float64); ok {
				if verb == 'v' {
					return strconv.FormatFloat(f, 'g', -1, 64)
				}
				return fmt.Sprintf("%"+string(verb), f)
			}
			return "<float>"
		}
	case *types.Pointer:
		p, _ := v.(*value)
		if p == nil {
			return "<nil>"
		}
		if depth == 0 {
			if _, ok := ut.Elem().Underlying().(*types.Struct); ok {
				return catStr([]value{"&", r.formatPlain(fr, verb, ut.Elem(), *p, depth+1)})
			}
		}
		return "0xc000000000"
	case *types.Struct:
		s, ok := v.(structure)
		if !ok || depth > 2 {
			return "{...}"
		}
		parts := []value{"{"}
		for i := 0; i < ut.NumFields(); i++ {
			if i > 0 {
				parts = append(parts, " ")
			}
			if r.fmtPlus {
				parts = append(parts, ut.Field(i).Name()+":")
			}
			parts = append(parts, r.formatNested(fr, verb, ut.Field(i).Type(), s[i], depth+1))
		}
		parts = append(parts, "}")
		return catStr(parts)
	case *types.Slice:
		if sb, ok := v.(*sym); ok {
			return catStr([]value{"[bytes ", strSym(sb.t), "]"})
		}
		xs, _ := v.([]value)
		if isByteSlice(t) && verb == 's' {
			if s, ok := goBytes(xs); ok {
				return s
			}
			return strSym(strTerm(xs))
		}
		parts := []value{"["}
		for i, x := range xs {
			if i > 0 {
				parts = append(parts, " ")
			}
			if i > 16 {
				parts = append(parts, "...")
				break
			}
			parts = append(parts, r.formatNested(fr, verb, ut.Elem(), x, depth+1))
		}
		parts = append(parts, "]")
		return catStr(parts)
	case *types.Map:
		return "map[...]"
	case *types.Interface:
		if it, ok := v.(iface); ok {
			return r.formatOne(fr, verb, it)
		}
	case *types.Signature:
		return "0xfunc"
	case *types.Chan:
		return "0xchan"
	case *types.Array:
		return "[...]"
	}
	return "?"
}

func (r *run) formatNested(fr *frame, verb rune, t types.Type, v value, depth int) value {
	if _, ok := t.Underlying().(*types.Interface); ok {
		if it, ok := v.(iface); ok {
			return r.formatOne(fr, verb, it)
		}
	}
	// named types with String/Error methods
	return r.formatOne(fr, verb, iface{t: t, v: v})
}

// sprintf implements the subset of fmt verbs used by the module.
func (r *run) sprintf(fr *frame, format string, args []value) value {
	var parts []value
	argi := 0
	i := 0
	for i < len(format) {
		j := strings.IndexByte(format[i:], '%')
		if j < 0 {
			parts = append(parts, format[i:])
			break
		}
		parts = append(parts, format[i:i+j])
		i += j + 1
		if i >= len(format) {
			parts = append(parts, "%!(NOVERB)")
			break
		}
		// flags / width / precision
		start := i
		for i < len(format) && strings.IndexByte("+-# 0123456789.", format[i]) >= 0 {
			i++
		}
		flags := format[start:i]
		if i >= len(format) {
			break
		}
		verb := rune(format[i])
		i++
		if verb == '%' {
			parts = append(parts, "%")
			continue
		}
		if argi >= len(args) {
			parts = append(parts, "%!"+string(verb)+"(MISSING)")
			continue
		}
		arg := args[argi]
		argi++
		if verb == 'w' {
			verb = 'v'
		}
		if verb == 'T' {
			if it, ok := arg.(iface); ok && it.t != nil {
				parts = append(parts, it.t.String())
			} else {
				parts = append(parts, "<nil>")
			}
			continue
		}
		// fully concrete operand of a basic type without Error/String methods: the real fmt decides
		if gv, ok := r.concreteBasic(arg); ok && strings.ContainsRune("vdxXobcqstfeEgGU", verb) {
			parts = append(parts, fmt.Sprintf("%"+flags+string(verb), gv))
			continue
		}
		r.fmtPlus = verb == 'v' && strings.Contains(flags, "+")
		s := r.formatOne(fr, verb, arg)
		r.fmtPlus = false
		// concrete numeric formatting with flags (e.g. %.2f, %02d)
		if flags != "" {
			if it, ok := arg.(iface); ok && it.t != nil {
				switch x := it.v.(type) {
				case float64:
					s = fmt.Sprintf("%"+flags+string(verb), x)
				case int64:
					if verb == 'd' || verb == 'x' {
						s = fmt.Sprintf("%"+flags+string(verb), x)
					}
				case uint64:
					if verb == 'd' || verb == 'x' {
						s = fmt.Sprintf("%"+flags+string(verb), x)
					}
				case string:
					if verb == 's' && !strings.ContainsAny(flags, ".") {
						s = fmt.Sprintf("%"+flags+"s", x)
					}
				case *sym:
					if x.sort == SFP {
						s = "<float>"
					}
				}
			}
		}
		parts = append(parts, s)
	}
	if argi < len(args) {
		parts = append(parts, "%!(EXTRA)")
	}
	return catStr(parts)
}

// concreteBasic converts a concrete operand of basic type (no Error/String method) to a Go value
// that the real fmt package formats identically.
func (r *run) concreteBasic(arg value) (interface{}, bool) {
	it, ok := arg.(iface)
	if !ok || it.t == nil {
		return nil, false
	}
	bt, ok := it.t.Underlying().(*types.Basic)
	if !ok {
		return nil, false
	}
	for _, t := range []types.Type{it.t, types.NewPointer(it.t)} {
		ms := r.e.prog.MethodSets.MethodSet(t)
		for i := 0; i < ms.Len(); i++ {
			if n := ms.At(i).Obj().Name(); n == "Error" || n == "String" || n == "Format" || n == "GoString" {
				return nil, false
			}
		}
	}
	switch x := it.v.(type) {
	case int64:
		switch bt.Kind() {
		case types.Int8:
			return int8(x), true
		case types.Int16:
			return int16(x), true
		case types.Int32:
			return int32(x), true
		}
		return x, true
	case uint64:
		switch bt.Kind() {
		case types.Uint8:
			return uint8(x), true
		case types.Uint16:
			return uint16(x), true
		case types.Uint32:
			return uint32(x), true
		case types.Uintptr:
			return uintptr(x), true
		}
		return x, true
	case float64:
		if bt.Kind() == types.Float32 {
			return float32(x), true
		}
		return x, true
	case string:
		return x, true
	case bool:
		return x, true
	}
	return nil, false
}

func variadic(v value) []value {
	if v == nil {
		return nil
	}
	return v.([]value)
}

func addFmtIntrinsics(m map[string]intrinsicFn) {
	m["fmt.Sprintf"] = func(fr *frame, a []value) value {
		f, ok := a[0].(string)
		if !ok {
			panic(unsupported{"Sprintf with symbolic format"})
		}
		return fr.r.sprintf(fr, f, variadic(a[1]))
	}
	m["fmt.Sprint"] = func(fr *frame, a []value) value {
		var parts []value
		for _, x := range variadic(a[0]) {
			parts = append(parts, fr.r.formatOne(fr, 'v', x))
		}
		return catStr(parts)
	}
	m["fmt.Sprintln"] = func(fr *frame, a []value) value {
		var parts []value
		for i, x := range variadic(a[0]) {
			if i > 0 {
				parts = append(parts, " ")
			}
			parts = append(parts, fr.r.formatOne(fr, 'v', x))
		}
		parts = append(parts, "\n")
		return catStr(parts)
	}
	m["fmt.Errorf"] = func(fr *frame, a []value) value {
		r := fr.r
		f, ok := a[0].(string)
		if !ok {
			panic(unsupported{"Errorf with symbolic format"})
		}
		args := variadic(a[1])
		msg := r.sprintf(fr, f, args)
		// %w: wrapError{msg, err}
		if idx := strings.Index(f, "%w"); idx >= 0 {
			// find which argument corresponds to %w
			n := 0
			for i := 0; i+1 < len(f); i++ {
				if f[i] == '%' {
					if f[i+1] == '%' {
						i++
						continue
					}
					if f[i+1] == 'w' {
						break
					}
					n++
				}
			}
			if n < len(args) {
				if inner, ok := args[n].(iface); ok && inner.t != nil {
					t := r.e.namedType("fmt", "wrapError")
					var s value = structure{msg, inner}
					return iface{t: types.NewPointer(t), v: &s}
				}
			}
		}
		return r.newError(msg)
	}
	// printing to stdout / writers: formatted then written through the Writer's Write
	m["fmt.Printf"] = func(fr *frame, a []value) value { return tuple{int64(0), iface{}} }
	m["fmt.Println"] = func(fr *frame, a []value) value { return tuple{int64(0), iface{}} }
	m["fmt.Print"] = func(fr *frame, a []value) value { return tuple{int64(0), iface{}} }
	fprint := func(fr *frame, w value, s value) value {
		r := fr.r
		var bs value
		switch s := s.(type) {
		case string:
			bs = bytesToValues(s)
		case *sym:
			bs = &sym{s.t, SBytes}
		}
		return r.callMethod(fr, w.(iface), "Write", bs)
	}
	m["fmt.Fprintf"] = func(fr *frame, a []value) value {
		f, ok := a[1].(string)
		if !ok {
			panic(unsupported{"Fprintf with symbolic format"})
		}
		return fprint(fr, a[0], fr.r.sprintf(fr, f, variadic(a[2])))
	}
	m["fmt.Fprint"] = func(fr *frame, a []value) value {
		var parts []value
		for _, x := range variadic(a[1]) {
			parts = append(parts, fr.r.formatOne(fr, 'v', x))
		}
		return fprint(fr, a[0], catStr(parts))
	}
	m["fmt.Fprintln"] = func(fr *frame, a []value) value {
		var parts []value
		for i, x := range variadic(a[1]) {
			if i > 0 {
				parts = append(parts, " ")
			}
			parts = append(parts, fr.r.formatOne(fr, 'v', x))
		}
		parts = append(parts, "\n")
		return fprint(fr, a[0], catStr(parts))
	}

	// errors
	m["errors.Is"] = func(fr *frame, a []value) value {
		r := fr.r
		err, _ := a[0].(iface)
		target, _ := a[1].(iface)
		for depth := 0; depth < 16; depth++ {
			if err.t == nil {
				return target.t == nil
			}
			if sameType(err.t, target.t) && types.Comparable(err.t) {
				if r.truth(r.equalsV(err.t, err.v, target.v)) {
					return true
				}
			}
			if f := r.findMethod(err.t, "Is"); f != nil {
				if r.truth(r.call(fr, token.NoPos, f, []value{err.v, target})) {
					return true
				}
			}
			f := r.findMethod(err.t, "Unwrap")
			if f == nil {
				return false
			}
			nx, ok := r.call(fr, token.NoPos, f, []value{err.v}).(iface)
			if !ok {
				return false // Unwrap() []error not supported
			}
			err = nx
		}
		return false
	}
	m["errors.Unwrap"] = func(fr *frame, a []value) value {
		r := fr.r
		err, _ := a[0].(iface)
		if err.t == nil {
			return iface{}
		}
		f := r.findMethod(err.t, "Unwrap")
		if f == nil {
			return iface{}
		}
		nx, ok := r.call(fr, token.NoPos, f, []value{err.v}).(iface)
		if !ok {
			return iface{}
		}
		return nx
	}
	m["errors.As"] = func(fr *frame, a []value) value {
		r := fr.r
		err, _ := a[0].(iface)
		tgt, _ := a[1].(iface)
		pt, ok := tgt.t.Underlying().(*types.Pointer)
		if !ok {
			panic(targetPanic{msg: "errors.As: target must be a non-nil pointer"})
		}
		want := pt.Elem()
		cell := tgt.v.(*value)
		for depth := 0; depth < 16 && err.t != nil; depth++ {
			if _, isI := want.Underlying().(*types.Interface); isI {
				if types.AssignableTo(err.t, want) {
					*cell = err
					return true
				}
			} else if types.Identical(err.t, want) {
				*cell = err.v
				return true
			}
			f := r.findMethod(err.t, "Unwrap")
			if f == nil {
				return false
			}
			nx, ok := r.call(fr, token.NoPos, f, []value{err.v}).(iface)
			if !ok {
				return false
			}
			err = nx
		}
		return false
	}
}

func (r *run) findMethod(t types.Type, name string) *ssa.Function {
	ms := r.e.prog.MethodSets.MethodSet(t)
	for i := 0; i < ms.Len(); i++ {
		sel := ms.At(i)
		if sel.Obj().Name() == name {
			return r.e.prog.MethodValue(sel)
		}
	}
	return nil
}
