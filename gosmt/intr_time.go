package main

import (
	"go/token"
	"go/types"
)

// time.Time is modelled as structure{wall=0, ext=<wall-clock ns as Int>, loc=nil}.
// The zero Time is {0,0,nil}; times produced by Now() are > 0.

func timeNs(v value) value {
	return v.(structure)[1]
}

func (r *run) addInt(x, y value) value {
	return r.binop(nil, token.ADD, types.Typ[types.Int64], x, y, nil)
}
func (r *run) subInt(x, y value) value {
	return r.binop(nil, token.SUB, types.Typ[types.Int64], x, y, nil)
}

func (r *run) wallNow() value {
	c := r.clockRead()
	if nc, ok := c.(int64); ok {
		return nc + 1700000000000000000
	}
	return &sym{sx("+", intTerm(c), r.wallOffset()), SInt}
}

func addTimeIntrinsics(m map[string]intrinsicFn) {
	m["time.Now"] = func(fr *frame, a []value) value {
		return fr.r.timeValue(fr.r.wallNow())
	}
	m["runtime.nanotime"] = func(fr *frame, a []value) value { return fr.r.clockRead() }
	m["go.amzn.com/lambda/metering.Monotime"] = func(fr *frame, a []value) value { return fr.r.clockRead() }
	m["go.amzn.com/lambda/metering.runtimeNanotime"] = func(fr *frame, a []value) value { return fr.r.clockRead() }
	m["(time.Time).UnixNano"] = func(fr *frame, a []value) value { return timeNs(a[0]) }
	m["(time.Time).UnixMilli"] = func(fr *frame, a []value) value {
		return fr.r.binop(fr, token.QUO, types.Typ[types.Int64], timeNs(a[0]), int64(1000000), nil)
	}
	m["(time.Time).UnixMicro"] = func(fr *frame, a []value) value {
		return fr.r.binop(fr, token.QUO, types.Typ[types.Int64], timeNs(a[0]), int64(1000), nil)
	}
	m["(time.Time).Unix"] = func(fr *frame, a []value) value {
		return fr.r.binop(fr, token.QUO, types.Typ[types.Int64], timeNs(a[0]), int64(1000000000), nil)
	}
	m["time.Unix"] = func(fr *frame, a []value) value {
		r := fr.r
		sec := r.binop(fr, token.MUL, types.Typ[types.Int64], a[0], int64(1000000000), nil)
		return r.timeValue(r.addInt(sec, a[1]))
	}
	m["time.UnixMilli"] = func(fr *frame, a []value) value {
		r := fr.r
		return r.timeValue(r.binop(fr, token.MUL, types.Typ[types.Int64], a[0], int64(1000000), nil))
	}
	m["(time.Time).Add"] = func(fr *frame, a []value) value {
		return fr.r.timeValue(fr.r.addInt(timeNs(a[0]), a[1]))
	}
	m["(time.Time).Sub"] = func(fr *frame, a []value) value {
		return fr.r.subInt(timeNs(a[0]), timeNs(a[1]))
	}
	m["time.Since"] = func(fr *frame, a []value) value {
		return fr.r.subInt(fr.r.wallNow(), timeNs(a[0]))
	}
	m["time.Until"] = func(fr *frame, a []value) value {
		return fr.r.subInt(timeNs(a[0]), fr.r.wallNow())
	}
	cmp := func(op token.Token) intrinsicFn {
		return func(fr *frame, a []value) value {
			return fr.r.binop(fr, op, types.Typ[types.Int64], timeNs(a[0]), timeNs(a[1]), nil)
		}
	}
	m["(time.Time).Before"] = cmp(token.LSS)
	m["(time.Time).After"] = cmp(token.GTR)
	m["(time.Time).Equal"] = cmp(token.EQL)
	m["(time.Time).IsZero"] = func(fr *frame, a []value) value {
		return fr.r.equalsV(types.Typ[types.Int64], timeNs(a[0]), int64(0))
	}
	m["(time.Time).UTC"] = func(fr *frame, a []value) value { return a[0] }
	m["(time.Time).Local"] = func(fr *frame, a []value) value { return a[0] }
	m["(time.Time).Round"] = func(fr *frame, a []value) value { return a[0] }
	m["(time.Time).Truncate"] = func(fr *frame, a []value) value { return a[0] }
	m["(time.Time).Format"] = func(fr *frame, a []value) value { return "<time>" }
	m["(time.Time).String"] = func(fr *frame, a []value) value { return "<time>" }
	m["(time.Duration).String"] = func(fr *frame, a []value) value { return "<duration>" }
	m["(time.Duration).Milliseconds"] = func(fr *frame, a []value) value {
		return fr.r.binop(fr, token.QUO, types.Typ[types.Int64], a[0], int64(1000000), nil)
	}

	m["time.Sleep"] = func(fr *frame, a []value) value {
		r := fr.r
		if d, ok := a[0].(int64); ok && d <= 0 {
			return nil
		}
		tm := r.newTimer(a[0], "sleep")
		r.blockUntil("time.Sleep", func() bool { return tm.fired })
		return nil
	}
	mkTimerChan := func(fr *frame, d value, label string) (*timerv, *chanv) {
		r := fr.r
		tm := r.newTimer(d, label)
		ch := r.newChan(1)
		ch.label = label
		tm.ch = ch
		return tm, ch
	}
	m["time.After"] = func(fr *frame, a []value) value {
		_, ch := mkTimerChan(fr, a[0], "time.After@"+shortPos(fr.r.callerPos(fr)))
		return ch
	}
	m["time.Tick"] = func(fr *frame, a []value) value {
		tm, ch := mkTimerChan(fr, a[0], "time.Tick")
		tm.period = intTerm(a[0])
		return ch
	}
	// time.Timer / time.Ticker: struct{C <-chan Time; r runtimeTimer-ish}; field 0 is C.
	timerObj := func(fr *frame, tname string, tm *timerv, ch *chanv) value {
		r := fr.r
		t := r.e.namedType("time", tname)
		v := zero(t)
		v.(structure)[0] = ch
		p := &v
		r.stash["timer:"+ptrKey(p)] = tm
		return p
	}
	m["time.NewTimer"] = func(fr *frame, a []value) value {
		tm, ch := mkTimerChan(fr, a[0], "time.NewTimer@"+shortPos(fr.r.callerPos(fr)))
		return timerObj(fr, "Timer", tm, ch)
	}
	m["time.NewTicker"] = func(fr *frame, a []value) value {
		tm, ch := mkTimerChan(fr, a[0], "time.NewTicker@"+shortPos(fr.r.callerPos(fr)))
		tm.period = intTerm(a[0])
		return timerObj(fr, "Ticker", tm, ch)
	}
	m["time.AfterFunc"] = func(fr *frame, a []value) value {
		r := fr.r
		tm := r.newTimer(a[0], "time.AfterFunc@"+shortPos(r.callerPos(fr)))
		f := a[1]
		tm.fn = func(r *run) {
			r.spawn(nil, f, nil, false, "AfterFunc")
		}
		return timerObj(fr, "Timer", tm, nil)
	}
	stop := func(fr *frame, a []value) value {
		r := fr.r
		tm, _ := r.stash["timer:"+ptrKey(a[0].(*value))].(*timerv)
		if tm == nil {
			return false
		}
		was := !tm.fired && !tm.stopped
		tm.stopped = true
		return was
	}
	m["(*time.Timer).Stop"] = stop
	m["(*time.Ticker).Stop"] = func(fr *frame, a []value) value { stop(fr, a); return nil }
	m["(*time.Timer).Reset"] = func(fr *frame, a []value) value {
		r := fr.r
		tm, _ := r.stash["timer:"+ptrKey(a[0].(*value))].(*timerv)
		if tm == nil {
			panic(unsupported{"Timer.Reset on unknown timer"})
		}
		was := !tm.fired && !tm.stopped
		now := r.clockRead()
		tm.deadline = sx("+", intTerm(now), intTerm(a[1]))
		if nc, ok := now.(int64); ok {
			if dc, ok := a[1].(int64); ok {
				tm.deadline = smtInt(nc + dc)
			}
		}
		tm.fired, tm.stopped = false, false
		return was
	}
}
