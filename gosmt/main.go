package main

import (
	"encoding/json"
	"flag"
	"fmt"
	"os"
	"strings"
)

func main() {
	if len(os.Args) < 2 {
		fmt.Fprintln(os.Stderr, "usage: gosmt run|check|selftest ...")
		os.Exit(2)
	}
	switch os.Args[1] {
	case "run":
		cmdRun(os.Args[2:])
	case "check":
		os.Exit(cmdCheck(os.Args[2:]))
	case "selftest":
		os.Exit(cmdSelftest(os.Args[2:]))
	default:
		fmt.Fprintln(os.Stderr, "unknown command")
		os.Exit(2)
	}
}

// cmdRun: developer entry: gosmt run [-flags] <pkgpath> <Harness>
func cmdRun(args []string) {
	fs := flag.NewFlagSet("run", flag.ExitOnError)
	opts := defaultOptions()
	pb := fs.Int("pb", 2, "preemption bound")
	fs.IntVar(&opts.workers, "workers", opts.workers, "workers")
	fs.BoolVar(&opts.debug, "debug", false, "debug")
	fs.StringVar(&opts.solverBin, "solver", opts.solverBin, "solver binary")
	fs.IntVar(&opts.maxPaths, "maxpaths", opts.maxPaths, "max paths")
	maxProg := fs.Bool("maxprog", false, "maximal progress timers")
	frozen := fs.Bool("frozen", false, "frozen clock")
	cclock := fs.Bool("cclock", false, "concrete clock")
	alt := fs.Bool("alt", false, "mirror into cvc5 and consult it on unknown")
	trace := fs.String("trace", "", "replay the first violation whose message contains this text with call tracing")
	smtlog := fs.String("smtlog", "", "log solver input of worker 0 to file")
	fs.Parse(args)
	rest := fs.Args()
	if len(rest) < 2 {
		fmt.Fprintln(os.Stderr, "usage: gosmt run <pkg> <Harness>")
		os.Exit(2)
	}
	pkg := rest[0]
	if !strings.HasPrefix(pkg, modulePath) {
		pkg = modulePath + "/" + pkg
	}
	smtLogPath = *smtlog
	e, err := loadEngine("/repo", "/verif/harness", []string{pkg}, opts)
	if err != nil {
		fmt.Fprintln(os.Stderr, err)
		os.Exit(2)
	}
	fmt.Printf("loaded in %.1fs\n", e.loadS)
	for _, hn := range rest[1:] {
		h := &harnessSpec{name: hn, pkg: pkg, preemptionBound: *pb, maximalProgress: *maxProg, maxTicks: 3, frozenClock: *frozen, concreteClock: *cclock, altSolver: *alt, solver: opts.solverBin}
		res := e.explore(h)
		fmt.Printf("== %s: paths=%d maxdepth=%d wall=%.2fs violations=%d inconclusive=%d\n", hn, res.paths, res.maxDepth, res.wall, len(res.violations), len(res.inconcl))
		for _, m := range res.inconcl {
			fmt.Println("  INCONCLUSIVE:", m)
		}
		seenMsg := map[string]int{}
		for _, v := range res.violations {
			seenMsg[v.Kind+v.Msg]++
			if seenMsg[v.Kind+v.Msg] > 1 {
				continue
			}
			b, _ := json.Marshal(v.Nondet)
			fmt.Printf("  VIOLATION %s: %s @ %s\n    nondet=%s\n    sched=%v\n", v.Kind, v.Msg, v.Pos, b, v.Sched)
		}
		if *trace != "" {
			for i := range res.violations {
				v := &res.violations[i]
				if strings.Contains(v.Msg, *trace) {
					fmt.Fprintf(os.Stderr, "=== trace of %s: %s\n", v.Kind, v.Msg)
					traceNext = true
					e.replayPinned(h, v)
					traceNext = false
					break
				}
			}
		}
		for k, n := range seenMsg {
			fmt.Printf("  count %d: %s\n", n, k)
		}
		fmt.Println("  reached:", sortedKeys(res.reached))
	}
	fmt.Printf("solver: queries=%d sat=%d unsat=%d unknown=%d time=%.2fs\n", gstats.queries, gstats.sat, gstats.unsat, gstats.unknown, float64(gstats.solverNs)/1e9)
}

var smtLogPath string

func cmdSelftest(args []string) int { return 0 }
