package main

// Value representation of the symbolic interpreter (derived from the design of
// golang.org/x/tools/go/ssa/interp, BSD licence, heavily modified):
//
//   bool, int64 (all signed ints), uint64 (all unsigned ints), float64, string
//   *sym            symbolic scalar / string / byte sequence (an SMT term)
//   *value          pointer
//   []value         slice (shares Go backing arrays)
//   *mapv           map
//   *chanv          channel
//   iface           interface value
//   structure, array, tuple
//   *ssa.Function, *ssa.Builtin, *closure
//   unsafePtr       opaque

import (
	"bytes"
	"fmt"
	"go/types"
	"strings"

	"golang.org/x/tools/go/ssa"
)

type value interface{}

type tuple []value
type array []value
type structure []value

type iface struct {
	t types.Type
	v value
}

type closure struct {
	Fn  *ssa.Function
	Env []value
}

type unsafePtr struct{ p *value }

type bad struct{}

// sym is a symbolic value: an SMT term of the given sort.
type sym struct {
	t    string
	sort Sort
}

func (s *sym) String() string { return "sym(" + s.t + ")" }

type iter interface {
	next(r *run) tuple
}

// ---------------------------------------------------------------------------
// maps: insertion-ordered association lists; keys may be symbolic.

type mapEntry struct {
	key value
	val value
}

type mapv struct {
	keyType types.Type
	entries []*mapEntry
}

// ---------------------------------------------------------------------------
// channels (scheduler-controlled)

type chanv struct {
	id     int
	cap    int
	buf    []value
	closed bool
	// rendezvous for unbuffered channels
	sendq []*chanWaiter
	recvq []*chanWaiter
	// timer channels
	timer *timerv
	// context done channels etc. are ordinary chans
	label string
}

type chanWaiter struct {
	th   *thread
	val  value // value to send
	done bool  // completed by peer
	recv value
	ok   bool
	sel  *selectState // non-nil if part of a select
	idx  int
}

type selectState struct{ fired int }

// ---------------------------------------------------------------------------

func isSym(v value) bool {
	_, ok := v.(*sym)
	return ok
}

// nil-tolerant variant of types.Identical.
func sameType(x, y types.Type) bool {
	if x == nil {
		return y == nil
	}
	return y != nil && types.Identical(x, y)
}

// basicKind classifies a static type for arithmetic.
type intInfo struct {
	bits   int
	signed bool
}

func intInfoOf(t types.Type) (intInfo, bool) {
	b, ok := t.Underlying().(*types.Basic)
	if !ok {
		return intInfo{}, false
	}
	switch b.Kind() {
	case types.Int, types.Int64, types.UntypedInt:
		return intInfo{64, true}, true
	case types.Int8:
		return intInfo{8, true}, true
	case types.Int16:
		return intInfo{16, true}, true
	case types.Int32, types.UntypedRune:
		return intInfo{32, true}, true
	case types.Uint, types.Uint64, types.Uintptr:
		return intInfo{64, false}, true
	case types.Uint8:
		return intInfo{8, false}, true
	case types.Uint16:
		return intInfo{16, false}, true
	case types.Uint32:
		return intInfo{32, false}, true
	}
	return intInfo{}, false
}

func (ii intInfo) wrapFn() string {
	if ii.signed {
		return fmt.Sprintf("wrap_s%d", ii.bits)
	}
	return fmt.Sprintf("wrap_u%d", ii.bits)
}

// wrapConcrete truncates a concrete integer to the width of ii.
func (ii intInfo) wrapS(x int64) int64 {
	switch ii.bits {
	case 8:
		return int64(int8(x))
	case 16:
		return int64(int16(x))
	case 32:
		return int64(int32(x))
	}
	return x
}
func (ii intInfo) wrapU(x uint64) uint64 {
	switch ii.bits {
	case 8:
		return uint64(uint8(x))
	case 16:
		return uint64(uint16(x))
	case 32:
		return uint64(uint32(x))
	}
	return x
}

func isFloatType(t types.Type) bool {
	b, ok := t.Underlying().(*types.Basic)
	return ok && b.Info()&types.IsFloat != 0
}
func isStringType(t types.Type) bool {
	b, ok := t.Underlying().(*types.Basic)
	return ok && b.Info()&types.IsString != 0
}
func isBoolType(t types.Type) bool {
	b, ok := t.Underlying().(*types.Basic)
	return ok && b.Info()&types.IsBoolean != 0
}
func isByteSlice(t types.Type) bool {
	s, ok := t.Underlying().(*types.Slice)
	if !ok {
		return false
	}
	b, ok := s.Elem().Underlying().(*types.Basic)
	return ok && b.Kind() == types.Uint8
}

// intTerm renders an integer value (concrete or symbolic) as an Int term.
func intTerm(v value) string {
	switch v := v.(type) {
	case int64:
		return smtInt(v)
	case uint64:
		return smtUint(v)
	case *sym:
		return v.t
	}
	panic(fmt.Sprintf("intTerm: %T", v))
}

func boolTerm(v value) string {
	switch v := v.(type) {
	case bool:
		return smtBool(v)
	case *sym:
		return v.t
	}
	panic(fmt.Sprintf("boolTerm: %T", v))
}

func strTerm(v value) string {
	switch v := v.(type) {
	case string:
		return smtStr(v)
	case *sym:
		return v.t
	case []value:
		// concrete-length byte slice with possibly symbolic bytes
		allc := true
		for _, b := range v {
			if _, ok := b.(uint64); !ok {
				allc = false
			}
		}
		if allc {
			bs := make([]byte, len(v))
			for i, b := range v {
				bs[i] = byte(b.(uint64))
			}
			return smtStr(string(bs))
		}
		if len(v) == 0 {
			return `""`
		}
		parts := make([]string, len(v))
		for i, b := range v {
			if c, ok := b.(uint64); ok {
				parts[i] = smtStr(string([]byte{byte(c)}))
			} else {
				parts[i] = "(str.from_code " + b.(*sym).t + ")"
			}
		}
		if len(parts) == 1 {
			return parts[0]
		}
		return sx("str.++", parts...)
	}
	panic(fmt.Sprintf("strTerm: %T", v))
}

// asInt64 converts a concrete integer value to int64.
func asInt64(x value) int64 {
	switch x := x.(type) {
	case int64:
		return x
	case uint64:
		return int64(x)
	}
	panic(fmt.Sprintf("cannot convert %T to int64", x))
}

// zero returns a new "zero" value of the specified type.
func zero(t types.Type) value {
	switch t := t.(type) {
	case *types.Basic:
		if t.Kind() == types.UntypedNil {
			panic("untyped nil has no zero value")
		}
		if t.Info()&types.IsUntyped != 0 {
			t = types.Default(t).(*types.Basic)
		}
		switch {
		case t.Kind() == types.Bool:
			return false
		case t.Kind() == types.String:
			return ""
		case t.Kind() == types.UnsafePointer:
			return unsafePtr{}
		case t.Info()&types.IsFloat != 0:
			return float64(0)
		case t.Info()&types.IsComplex != 0:
			return complex128(0)
		case t.Info()&types.IsUnsigned != 0:
			return uint64(0)
		case t.Info()&types.IsInteger != 0:
			return int64(0)
		}
		panic(fmt.Sprint("zero for unexpected type:", t))
	case *types.Pointer:
		return (*value)(nil)
	case *types.Array:
		a := make(array, t.Len())
		for i := range a {
			a[i] = zero(t.Elem())
		}
		return a
	case *types.Named:
		return zero(t.Underlying())
	case *types.Alias:
		return zero(types.Unalias(t))
	case *types.Interface:
		return iface{}
	case *types.Slice:
		return []value(nil)
	case *types.Struct:
		s := make(structure, t.NumFields())
		for i := range s {
			s[i] = zero(t.Field(i).Type())
		}
		return s
	case *types.Tuple:
		if t.Len() == 1 {
			return zero(t.At(0).Type())
		}
		s := make(tuple, t.Len())
		for i := range s {
			s[i] = zero(t.At(i).Type())
		}
		return s
	case *types.Chan:
		return (*chanv)(nil)
	case *types.Map:
		return (*mapv)(nil)
	case *types.Signature:
		return (*ssa.Function)(nil)
	case *types.TypeParam:
		panic("zero of type parameter")
	}
	panic(fmt.Sprint("zero: unexpected ", t))
}

// load returns the value of type T in *addr (deep copy of aggregates).
func load(T types.Type, addr *value) value {
	switch T := T.Underlying().(type) {
	case *types.Struct:
		v := (*addr).(structure)
		a := make(structure, len(v))
		for i := range a {
			a[i] = load(T.Field(i).Type(), &v[i])
		}
		return a
	case *types.Array:
		v := (*addr).(array)
		a := make(array, len(v))
		for i := range a {
			a[i] = load(T.Elem(), &v[i])
		}
		return a
	default:
		return *addr
	}
}

// store stores value v of type T into *addr.
func store(T types.Type, addr *value, v value) {
	switch T := T.Underlying().(type) {
	case *types.Struct:
		lhs := (*addr).(structure)
		rhs := v.(structure)
		for i := range lhs {
			store(T.Field(i).Type(), &lhs[i], rhs[i])
		}
	case *types.Array:
		lhs := (*addr).(array)
		rhs := v.(array)
		for i := range lhs {
			store(T.Elem(), &lhs[i], rhs[i])
		}
	default:
		*addr = v
	}
}

// copyVal makes an unaliased copy of an aggregate value (for channel sends etc).
func copyVal(v value) value {
	switch v := v.(type) {
	case structure:
		a := make(structure, len(v))
		for i := range v {
			a[i] = copyVal(v[i])
		}
		return a
	case array:
		a := make(array, len(v))
		for i := range v {
			a[i] = copyVal(v[i])
		}
		return a
	}
	return v
}

func writeValue(buf *bytes.Buffer, v value, depth int) {
	if depth > 4 {
		buf.WriteString("...")
		return
	}
	switch v := v.(type) {
	case nil, bool, int64, uint64, float64, complex128, string:
		fmt.Fprintf(buf, "%v", v)
	case *sym:
		buf.WriteString(v.String())
	case *mapv:
		buf.WriteString("map[")
		if v != nil {
			for i, e := range v.entries {
				if i > 0 {
					buf.WriteString(" ")
				}
				writeValue(buf, e.key, depth+1)
				buf.WriteString(":")
				writeValue(buf, e.val, depth+1)
			}
		}
		buf.WriteString("]")
	case *chanv:
		fmt.Fprintf(buf, "chan%p", v)
	case *value:
		if v == nil {
			buf.WriteString("<nil>")
		} else {
			fmt.Fprintf(buf, "%p", v)
		}
	case iface:
		if v.t == nil {
			buf.WriteString("<nil iface>")
		} else {
			fmt.Fprintf(buf, "(%s, ", v.t)
			writeValue(buf, v.v, depth+1)
			buf.WriteString(")")
		}
	case structure:
		buf.WriteString("{")
		for i, e := range v {
			if i > 0 {
				buf.WriteString(" ")
			}
			writeValue(buf, e, depth+1)
		}
		buf.WriteString("}")
	case array:
		buf.WriteString("[")
		for i, e := range v {
			if i > 0 {
				buf.WriteString(" ")
			}
			writeValue(buf, e, depth+1)
		}
		buf.WriteString("]")
	case []value:
		buf.WriteString("[")
		for i, e := range v {
			if i > 8 {
				buf.WriteString(" ...")
				break
			}
			if i > 0 {
				buf.WriteString(" ")
			}
			writeValue(buf, e, depth+1)
		}
		buf.WriteString("]")
	case *ssa.Function, *ssa.Builtin, *closure:
		fmt.Fprintf(buf, "func%p", v)
	case tuple:
		buf.WriteString("(")
		for i, e := range v {
			if i > 0 {
				buf.WriteString(", ")
			}
			writeValue(buf, e, depth+1)
		}
		buf.WriteString(")")
	default:
		fmt.Fprintf(buf, "<%T>", v)
	}
}

func toString(v value) string {
	var b bytes.Buffer
	writeValue(&b, v, 0)
	return b.String()
}

// goBytes converts a concrete []value of bytes to a Go string; ok=false if any byte is symbolic.
func goBytes(v []value) (string, bool) {
	var sb strings.Builder
	for _, b := range v {
		c, ok := b.(uint64)
		if !ok {
			return "", false
		}
		sb.WriteByte(byte(c))
	}
	return sb.String(), true
}

func bytesToValues(s string) []value {
	res := make([]value, len(s))
	for i := 0; i < len(s); i++ {
		res[i] = uint64(s[i])
	}
	return res
}
